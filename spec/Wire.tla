--------------------------- MODULE Wire ---------------------------
(***************************************************************************)
(* L6: what a value of a generated type looks like on the wire.             *)
(* DECLARATIVE: the XML infoset that the schema prescribes for a value      *)
(* built by a value plan; nothing here knows yaserde or zeep.               *)
(*                                                                          *)
(* A value plan is one of "min" (optional members absent, repeated members  *)
(* empty, leaves at their lower extreme), "max" (everything present,        *)
(* repeated members three times, leaves at their upper extreme), "mix"      *)
(* (odd members present / once, leaves needing XML escaping).               *)
(* An infoset node is [ns, local, attrs, kids, text]:                       *)
(*   attrs  set of [name, text]   (unqualified attributes)                  *)
(*   kids   sequence of nodes     (element content, in order)               *)
(*   text   string or "-"         (simple content)                          *)
(* Leaf texts come from the token table Tok: carrier or XSD type -> token -> [lit,text] *)
(* (`lit` = the Rust literal the driver writes, `text` = its XSD lexical    *)
(* form) - the only trusted correspondence in the pipeline.                 *)
(***************************************************************************)
EXTENDS Schema

CONSTANT Tok   \* [carrier |-> [lo |-> [lit, text], hi |-> .., esc |-> ..]]

\* "wide" = "max", except that members of the unbounded integer types carry a value just outside the i32 range
Plans == {"min", "max", "mix"}
Present(plan, i) == plan \in {"max", "wide"} \/ (plan = "mix" /\ i % 2 = 1)
Count(plan, i, w) == CASE w = "Bare" -> 1
                       [] w = "Option" -> IF Present(plan, i) THEN 1 ELSE 0
                       [] OTHER -> (IF plan \in {"max", "wide"} THEN 3 ELSE IF Present(plan, i) THEN 1 ELSE 0)
LeafTok(plan) == CASE plan = "min" -> "lo" [] plan \in {"max", "wide"} -> "hi" [] OTHER -> "esc"
LeafText(plan, carrier) == Tok[carrier][LeafTok(plan)].text
\* the token row of a builtin: the row of the XSD type itself where the table has one (date, duration, the sign-restricted
\* integers, ...: types whose lexical space is narrower than their carrier's), else the row of the carrier
TokKey(xsd, carrier) == IF xsd \in DOMAIN Tok THEN xsd ELSE carrier
\* the text of a builtin-typed member m
MemberText(plan, m) == IF plan = "wide" /\ m.xsd \in UnboundedUp THEN "2147483648"
                       ELSE IF plan = "wide" /\ m.xsd \in UnboundedDown THEN "-2147483649"
                       ELSE LeafText(plan, TokKey(m.xsd, m.target.rust))

RECURSIVE Repeat(_, _)
Repeat(x, n) == IF n = 0 THEN <<>> ELSE <<x>> \o Repeat(x, n - 1)

\* content of a value of the struct generated for component c: [attrs, kids, text]
RECURSIVE Content(_, _, _, _)
RECURSIVE NodeFor(_, _, _, _, _)
\* the element a member m contributes once
NodeFor(S, m, plan, fuel, i) ==
  IF m.target.k = "builtin"
  THEN [ns |-> m.ns, local |-> m.xml, attrs |-> {}, kids |-> <<>>, text |-> MemberText(plan, m)]
  ELSE IF m.target.k = "struct" /\ fuel > 0
       THEN LET t == CHOOSE x \in StructComps(S) : x.ns = m.target.ns /\ x.n = m.target.n
                ct == Content(S, t, plan, fuel - 1)
            IN [ns |-> m.ns, local |-> m.xml, attrs |-> ct.attrs, kids |-> ct.kids, text |-> ct.text]
       ELSE [ns |-> m.ns, local |-> m.xml, attrs |-> {}, kids |-> <<>>, text |-> "?"]

Content(S, c, plan, fuel) ==
  IF c.k = "simple"
  THEN \* a simple type is a struct with text content: the carrier of its (ultimate) base
       LET tgt == TargetOf(S, FileNamed(S, c.f), c.it, c.it.base)
           fs == EffFacets(S, c, 4) IN
       IF HasFacets(fs) /\ ValidText(fs) # "?" THEN [attrs |-> {}, kids |-> <<>>, text |-> ValidText(fs)]   \* a value inside the facets
       ELSE IF tgt.k = "builtin" THEN [attrs |-> {}, kids |-> <<>>, text |-> LeafText(plan, TokKey(c.it.base.n, tgt.rust))]
       ELSE IF tgt.k = "struct" /\ fuel > 0
            THEN Content(S, CHOOSE x \in StructComps(S) : x.ns = tgt.ns /\ x.n = tgt.n, plan, fuel - 1)
            ELSE [attrs |-> {}, kids |-> <<>>, text |-> "?"]
  ELSE LET ms == ExpFields(S, FileNamed(S, c.f), c.it, BodyOf(c))
           RECURSIVE Kids(_)
           Kids(i) == IF i > Len(ms) THEN <<>>
                      ELSE (IF ms[i].attr THEN <<>> ELSE Repeat(NodeFor(S, ms[i], plan, fuel, i), Count(plan, i, ms[i].w))) \o Kids(i + 1)
       IN [attrs |-> {[name |-> ms[i].xml, text |-> IF ms[i].target.k = "builtin" THEN MemberText(plan, ms[i]) ELSE "?"] :
                        i \in {j \in 1..Len(ms) : ms[j].attr /\ Count(plan, j, ms[j].w) = 1}},
           kids |-> Kids(1), text |-> "-"]

\* does a value of component c contain (transitively) a member of an unbounded integer type ?
RECURSIVE HasWide(_, _, _)
HasWide(S, c, fuel) ==
  IF c.k = "simple" \/ fuel = 0 THEN FALSE
  ELSE LET ms == ExpFields(S, FileNamed(S, c.f), c.it, BodyOf(c)) IN
       \E i \in 1..Len(ms) : \/ ms[i].xsd \in UnboundedUp \cup UnboundedDown
                               \/ (ms[i].target.k = "struct" /\ \E x \in StructComps(S) : x.ns = ms[i].target.ns /\ x.n = ms[i].target.n /\ HasWide(S, x, fuel - 1))

\* A component is PLAIN when the struct generated for it can hold exactly the instances of its type: no choice (the
\* struct cannot say "one of"), and no optional / repeated GROUP (a flat member list cannot say "a,b,a,b").  For a plain
\* component every value plan yields a schema-valid document, so an XSD validator must accept it (clause xsd_valid).
RECURSIVE PlainPs(_)
PlainPs(ps) == \A i \in 1..Len(ps) :
   \* (a repeated member that must occur at least once is left empty by the plan `min`: not plain either)
   CASE ps[i].k \in {"el", "ref"} -> ps[i].max = "1" \/ ps[i].min = 0
     [] ps[i].k = "seq" -> ps[i].min = 1 /\ ps[i].max = "1" /\ PlainPs(ps[i].ps)
     [] ps[i].k = "all" -> PMin(ps[i]) = 1 /\ PlainPs(ps[i].ps)
     [] OTHER -> FALSE
RECURSIVE Plain(_, _, _)
Plain(S, c, fuel) ==
  IF fuel = 0 THEN FALSE
  ELSE IF c.k = "simple" THEN TRUE
  ELSE LET body == BodyOf(c)
           f == FileNamed(S, c.f)
           ms == ExpFields(S, f, c.it, body)
           b == IF HasBase(body) THEN ResolveType(S, f, c.it, body.base) ELSE None
       IN /\ PlainPs(body.content)
          /\ (HasBase(body) => (b # None /\ Plain(S, b, fuel - 1)))
          /\ \A i \in 1..Len(ms) : ms[i].target.k = "builtin"
                 \/ (ms[i].target.k = "struct" /\ \E x \in StructComps(S) : x.ns = ms[i].target.ns /\ x.n = ms[i].target.n /\ Plain(S, x, fuel - 1))

\* the document obtained by serialising a value of component c built by `plan`
ExpInfoset(S, c, plan) ==
  LET ct == Content(S, c, plan, 4) IN [ns |-> c.ns, local |-> c.n, attrs |-> ct.attrs, kids |-> ct.kids, text |-> ct.text]

---------------------------------------------------------------------------
(* SOAP 1.1 envelopes (C05).  An operation shape is                                                       *)
(*   [n, input |-> [body (global element: [ns, n]), headers (Seq of [part, el])], output |-> same or None] *)
SoapNs == "http://schemas.xmlsoap.org/soap/envelope/"
ElemNode(S, e, plan) ==
  LET comps == {x \in ElemsOf(S) : x.ns = e.ns /\ x.n = e.n}
      c == CHOOSE x \in comps : TRUE
      tgt == ElemTarget(S, c)
      sc == CHOOSE x \in StructComps(S) : tgt.k = "struct" /\ x.ns = tgt.ns /\ x.n = tgt.n
      ct == IF tgt.k = "struct" THEN Content(S, sc, plan, 4) ELSE [attrs |-> {}, kids |-> <<>>, text |-> LeafText(plan, tgt.rust)]
  IN [ns |-> e.ns, local |-> e.n, attrs |-> ct.attrs, kids |-> ct.kids, text |-> ct.text]

ExpEnvelope(S, io, plan) ==
  LET body == [ns |-> SoapNs, local |-> "Body", attrs |-> {}, kids |-> <<ElemNode(S, io.body, plan)>>, text |-> "-"]
      hdrs == [i \in 1..Len(io.headers) |-> ElemNode(S, io.headers[i].el, plan)]
      header == [ns |-> SoapNs, local |-> "Header", attrs |-> {}, kids |-> hdrs, text |-> "-"]
  IN [ns |-> SoapNs, local |-> "Envelope", attrs |-> {},
      kids |-> (IF Len(io.headers) > 0 THEN <<header>> ELSE <<>>) \o <<body>>, text |-> "-"]
=======================================================================
