--------------------------- MODULE Api ---------------------------
(***************************************************************************)
(* L1 (determinism, C12): generation as seen through the public API.        *)
(* The output is assembled from containers: the operations of a binding,    *)
(* the operations of a port type, the parts of a message.  As built         *)
(* (deviation "D05") these are HashMaps, so the order in which a run visits  *)
(* them is chosen per run (hash seed), and "the first part" of a message is  *)
(* whichever the map yields first.  Repaired, a run visits them in a fixed  *)
(* order (sorted) and the body part is determined by the bindings.          *)
(*                                                                          *)
(* The model is a self-composition: two runs r \in {1,2} over the same      *)
(* input with independent choices; `memo` is what an observer who has seen   *)
(* earlier generations of the same input remembers.                         *)
(***************************************************************************)
EXTENDS Naturals, Sequences, FiniteSets, TLC

CONSTANTS Ops,     \* operation names of the input (a set)
          Parts,   \* part names of the one multi-part message
          Dev

VARIABLES out,     \* [1..2 -> sequence of emitted operation names, or <<>> when the run has not happened]
          body,    \* [1..2 -> part chosen as body part ("none" before the run)]
          done,    \* [1..2 -> BOOLEAN]
          memo     \* the first output observed for this input, or None

vars == <<out, body, done, memo>>
None == [none |-> TRUE]

Perms(S) == {s \in [1..Cardinality(S) -> S] : \A i, j \in 1..Cardinality(S) : i # j => s[i] # s[j]}
\* a fixed total order on names: TLC cannot compare strings, the model only needs SOME order that does not depend on the run
Fixed(S) == CHOOSE s \in Perms(S) : TRUE

HeaderParts == Parts \ {"bodyPart"}     \* the binding names every other part in a soap:header
Init == /\ out = [r \in 1..2 |-> <<>>] /\ body = [r \in 1..2 |-> "none"]
        /\ done = [r \in 1..2 |-> FALSE] /\ memo = None

Generate(r) ==
  /\ ~done[r]
  /\ \E order \in (IF "D05" \in Dev THEN Perms(Ops) ELSE {Fixed(Ops)}),
        b \in (IF "D05" \in Dev THEN Parts ELSE Parts \ HeaderParts) :
        /\ out' = [out EXCEPT ![r] = order]
        /\ body' = [body EXCEPT ![r] = b]
        /\ memo' = IF memo = None THEN [out |-> order, body |-> b] ELSE memo
  /\ done' = [done EXCEPT ![r] = TRUE]

Next == \E r \in 1..2 : Generate(r)
Spec == Init /\ [][Next]_vars /\ WF_vars(Next)

\* C12: any two generations of the same input agree, and agree with what was seen before
Deterministic == (done[1] /\ done[2]) => (out[1] = out[2] /\ body[1] = body[2])
SameAsRemembered == \A r \in 1..2 : done[r] => (memo.out = out[r] /\ memo.body = body[r])
\* C05 (body part): the body is the one part that no header binding names
BodyIsUnnamedPart == \A r \in 1..2 : done[r] => body[r] \notin HeaderParts
=======================================================================
