--------------------------- MODULE ClientFn ---------------------------
(* The constant part of spec/Client.tla: server scripts and the call as a function of the scenario. *)
EXTENDS Naturals, Sequences, FiniteSets, TLC

Statuses == {200, 201, 204, 400, 401, 403, 404, 500, 503}
Bodies == {"exact", "other_prefixes", "empty", "non_xml", "fault"}
\* a 204 reply has no body
\* "overlong": the whole reply envelope arrives, but the headers announced more and the connection closes - a body cut
\* short exactly behind the envelope is still a failed exchange (seed C16-f)
Scripts == {[k |-> "refuse"], [k |-> "close_before"], [k |-> "close_after"], [k |-> "truncate"], [k |-> "overlong"]}
           \cup {[k |-> "reply", status |-> st, body |-> b] : st \in Statuses, b \in Bodies}
Parses(b) == b \in {"exact", "other_prefixes"}

\* the call as a function of the scenario (for judging observed calls)
Outcome(v, c, s) ==
  IF v THEN [result |-> "err_restriction", conns |-> 0, posts |-> 0]
  ELSE IF s.k = "refuse" THEN [result |-> "err_http", conns |-> 0, posts |-> 0]
  ELSE IF s.k \in {"close_before", "close_after", "truncate", "overlong"} THEN [result |-> "err_http", conns |-> 1, posts |-> 1]
  ELSE IF s.status >= 400 THEN [result |-> "err_http", conns |-> 1, posts |-> 1]
  ELSE IF Parses(s.body) THEN [result |-> "ok", conns |-> 1, posts |-> 1]
  ELSE [result |-> "err_yaserde", conns |-> 1, posts |-> 1]
=======================================================================
