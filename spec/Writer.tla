--------------------------- MODULE Writer ---------------------------
(***************************************************************************)
(* L3: the order in which RustDocument::write_xml emits the output          *)
(* (doc.rs), as a state machine over the sections of the file:              *)
(*                                                                          *)
(*   start -> header -> ( module_open -> node* -> module_close )*           *)
(*         -> root_node* -> binding* -> service* -> helpers -> end          *)
(*                                                                          *)
(* `todo` is what the document holds (from the reader): the target          *)
(* namespaces in order, per namespace the names of its nodes in order, the  *)
(* nodes without namespace, bindings and services.  Every action consumes   *)
(* the head of the corresponding list, so a behaviour of this machine emits *)
(* every component exactly once, inside the module of its namespace, and    *)
(* nothing else.  The hook events `emit` of a real generation are validated *)
(* against it (spec/trace/Trace_Emit.tla).                                  *)
(***************************************************************************)
EXTENDS Naturals, Sequences, FiniteSets, TLC

VARIABLES phase,    \* "start" | "header" | "in_module" | "between" | "root" | "bindings" | "services" | "helpers" | "end"
          mods,     \* Seq([name, nodes : Seq(name)])   modules still to be written
          open,      \* nodes of the open module still to be written
          roots, bindings, services,   \* Seq(name) still to be written
          emitted   \* Seq([section, subject]) written so far
vars == <<phase, mods, open, roots, bindings, services, emitted>>

Emit(sec, subj) == emitted' = Append(emitted, [section |-> sec, subject |-> subj])

Header == /\ phase = "start" /\ phase' = "between" /\ Emit("header", "-")
          /\ UNCHANGED <<mods, open, roots, bindings, services>>
OpenModule == /\ phase = "between" /\ mods # <<>>
              /\ phase' = "in_module" /\ open' = Head(mods).nodes /\ mods' = Tail(mods)
              /\ Emit("module_open", Head(mods).name)
              /\ UNCHANGED <<roots, bindings, services>>
Node == /\ phase = "in_module" /\ open # <<>>
        /\ open' = Tail(open) /\ Emit("node", Head(open))
        /\ UNCHANGED <<phase, mods, roots, bindings, services>>
CloseModule(name) == /\ phase = "in_module" /\ open = <<>>
                     /\ phase' = "between" /\ Emit("module_close", name)
                     /\ UNCHANGED <<mods, open, roots, bindings, services>>
RootNode == /\ phase \in {"between", "root"} /\ mods = <<>> /\ roots # <<>>
            /\ phase' = "root" /\ roots' = Tail(roots) /\ Emit("root_node", Head(roots))
            /\ UNCHANGED <<mods, open, bindings, services>>
Binding == /\ phase \in {"between", "root", "bindings"} /\ mods = <<>> /\ roots = <<>> /\ bindings # <<>>
           /\ phase' = "bindings" /\ bindings' = Tail(bindings) /\ Emit("binding", Head(bindings))
           /\ UNCHANGED <<mods, open, roots, services>>
Service == /\ phase \in {"between", "root", "bindings", "services"} /\ mods = <<>> /\ roots = <<>> /\ bindings = <<>> /\ services # <<>>
           /\ phase' = "services" /\ services' = Tail(services) /\ Emit("service", Head(services))
           /\ UNCHANGED <<mods, open, roots, bindings>>
Helpers == /\ phase \in {"between", "root", "bindings", "services"} /\ mods = <<>> /\ roots = <<>> /\ bindings = <<>> /\ services = <<>>
           /\ phase' = "end" /\ Emit("helpers", "-")
           /\ UNCHANGED <<mods, open, roots, bindings, services>>

\* (the name a module is closed with is the name it was opened with: the last module_open emitted)
LastOpened == emitted[CHOOSE i \in 1..Len(emitted) : emitted[i].section = "module_open" /\ \A j \in (i + 1)..Len(emitted) : emitted[j].section # "module_open"].subject
Next == Header \/ OpenModule \/ Node \/ CloseModule(LastOpened) \/ RootNode \/ Binding \/ Service \/ Helpers
Fair == WF_vars(Next)

\* nothing is written twice, nothing after the helpers, a module is closed before the next one opens
Sections(s) == {i \in 1..Len(emitted) : emitted[i].section = s}
HelpersLast == \A i \in Sections("helpers") : i = Len(emitted)
HeaderFirst == \A i \in Sections("header") : i = 1
Balanced == Cardinality(Sections("module_close")) <= Cardinality(Sections("module_open"))
            /\ Cardinality(Sections("module_open")) <= Cardinality(Sections("module_close")) + 1
Finishes == <>(phase = "end")
=======================================================================
