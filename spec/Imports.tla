--------------------------- MODULE Imports ---------------------------
(***************************************************************************)
(* L1/L2 of zeep: the file table with its `processed` flags (which live in  *)
(* the caller's FilesToRead object and therefore survive calls), and the    *)
(* recursion of read_xml_internal / process_import over xs:import.          *)
(*                                                                          *)
(* One action per critical section of reader.rs:                            *)
(*   Call           XmlReader::read_xml (public entry)                      *)
(*   SkipProcessed  read_xml_internal: flag already set -> empty document   *)
(*   EnterStart     read_xml_internal on the start file                     *)
(*   ImportSkip     process_import: well-known ns / no location / processed *)
(*   ImportMissing  process_import: ImportNotFound, propagated by `?`       *)
(*   ImportRecurse  process_import -> read_xml_internal (push a frame)      *)
(*   Leave          end of read_xml_internal: flag set, doc returned and    *)
(*                  merged into the importer (RustDocument::extend)         *)
(*   Overflow       unbounded recursion ends in a stack overflow            *)
(*                                                                          *)
(* Deviations (Dev):                                                        *)
(*   "D03"  the flag is set only when a file has been read completely, so a *)
(*          file that is (transitively) imported from itself is entered     *)
(*          again and again                                                 *)
(*   "D04"  the flags are not reset by the public entry point: the second   *)
(*          call on the same object finds the start file processed          *)
(*   "D28"  look-ups only see the components merged into the document of    *)
(*          the file being read: a file imported by two files (diamond) is  *)
(*          invisible to the second importer, whose referring component is  *)
(*          dropped silently                                                *)
(*   "D28b" a component of a file that is still being read (an importer     *)
(*          further up the stack: import cycles) cannot be referred to       *)
(* With Dev = {} this is the design the properties C11/C12 require.         *)
(***************************************************************************)
EXTENDS Naturals, Sequences, FiniteSets, TLC

CONSTANTS File,      \* set of registered file names
          Dev,       \* set of enabled deviations
          MaxCalls,  \* length of the call history explored
          RefsOn     \* TRUE: the type of every file refers to a global element of each file it imports

Special == {"wk", "noloc", "missing"}   \* import targets that are not registered files

VARIABLES g,          \* [File -> Seq(File \cup Special)]: xs:import targets in document order
          start,      \* the file read_xml starts with
          processed,  \* [File -> BOOLEAN]  (FileContent.processed)
          stack,      \* Seq([f, todo, comps]) call stack of read_xml_internal
          reads,      \* [File -> Nat] how often a file was parsed during the current call
          pc,         \* "idle" | "call" | "run" | "done"
          result,     \* "none" | "doc" | "err" | "overflow"
          calls,      \* number of calls issued so far on this object
          doc,        \* Seq(File): whose components the returned document holds, in node order
          first       \* result of the first completed call: [result, doc] or [none |-> TRUE]

vars == <<g, start, processed, stack, reads, pc, result, calls, doc, first>>

None == [none |-> TRUE]
AllFalse == [f \in File |-> FALSE]
Zero == [f \in File |-> 0]
\* comps: files whose components have been read into this frame's document (visible to look-ups);
\* types: files whose referring type survived (what the output will contain)
Frame(f) == [f |-> f, todo |-> g[f], comps |-> <<>>, types |-> <<>>]
Top == stack[Len(stack)]
HasDup == \E i, j \in 1..Len(stack) : i < j /\ stack[i].f = stack[j].f

TypeOK == /\ processed \in [File -> BOOLEAN]
          /\ reads \in [File -> Nat]
          /\ pc \in {"idle", "call", "run", "done"}
          /\ result \in {"none", "doc", "err", "overflow"}
          /\ calls \in 0..MaxCalls

InitRest == /\ processed = AllFalse /\ stack = <<>> /\ reads = Zero
            /\ pc = "idle" /\ result = "none" /\ calls = 0 /\ doc = <<>> /\ first = None

Finish(r, d) == /\ pc' = "done" /\ result' = r /\ doc' = d /\ stack' = <<>>
                /\ first' = IF first = None THEN [result |-> r, doc |-> d] ELSE first

Call == /\ pc \in {"idle", "done"} /\ calls < MaxCalls
        /\ pc' = "call" /\ calls' = calls + 1
        /\ reads' = Zero /\ result' = "none" /\ doc' = <<>> /\ stack' = <<>>
        /\ processed' = IF "D04" \in Dev THEN processed ELSE AllFalse
        /\ UNCHANGED <<g, start, first>>

SkipProcessed == /\ pc = "call" /\ processed[start]
                 /\ Finish("doc", <<>>)
                 /\ UNCHANGED <<g, start, processed, reads, calls>>

Push(st, f) == /\ stack' = Append(st, Frame(f))
               /\ reads' = [reads EXCEPT ![f] = @ + 1]
               /\ processed' = IF "D03" \in Dev THEN processed ELSE [processed EXCEPT ![f] = TRUE]

EnterStart == /\ pc = "call" /\ ~processed[start]
              /\ Push(stack, start) /\ pc' = "run"
              /\ UNCHANGED <<g, start, result, calls, doc, first>>

PopTodo == [stack EXCEPT ![Len(stack)].todo = Tail(@)]

ImportSkip(kind) == /\ pc = "run" /\ ~HasDup /\ Top.todo # <<>>
                    /\ LET t == Head(Top.todo) IN
                          \/ t \in {"wk", "noloc"} /\ kind = t
                          \/ t \in File /\ processed[t] /\ kind = "processed"
                    /\ stack' = PopTodo
                    /\ UNCHANGED <<g, start, processed, reads, pc, result, calls, doc, first>>

ImportMissing == /\ pc = "run" /\ ~HasDup /\ Top.todo # <<>> /\ Head(Top.todo) = "missing"
                 /\ Finish("err", <<>>)
                 /\ UNCHANGED <<g, start, processed, reads, calls>>

ImportRecurse(t) == /\ pc = "run" /\ ~HasDup /\ Top.todo # <<>> /\ Head(Top.todo) = t
                    /\ t \in File /\ ~processed[t]
                    /\ Push(PopTodo, t)
                    /\ UNCHANGED <<g, start, pc, result, calls, doc, first>>

\* the files whose global elements the type of the top frame's file refers to
Needs == IF RefsOn THEN ({g[Top.f][i] : i \in 1..Len(g[Top.f])} \cap File) \ {Top.f} ELSE {}
\* the files whose components a look-up made while the top frame's file is read can find
Visible == {Top.comps[i] : i \in 1..Len(Top.comps)}
           \cup (IF "D28" \in Dev THEN {} ELSE UNION {{stack[k].comps[i] : i \in 1..Len(stack[k].comps)} : k \in 1..(Len(stack) - 1)})
           \cup (IF "D28" \in Dev \/ "D28b" \in Dev THEN {} ELSE File)
Leave == /\ pc = "run" /\ ~HasDup /\ Top.todo = <<>>
         /\ LET cs == Append(Top.comps, Top.f)
                ts == IF Needs \subseteq Visible THEN Append(Top.types, Top.f) ELSE Top.types   \* else: dropped silently
            IN
            /\ processed' = [processed EXCEPT ![Top.f] = TRUE]
            /\ IF Len(stack) = 1
               THEN /\ Finish("doc", ts) /\ UNCHANGED <<reads, calls>>
               ELSE /\ stack' = [SubSeq(stack, 1, Len(stack) - 1) EXCEPT ![Len(stack) - 1].comps = @ \o cs, ![Len(stack) - 1].types = @ \o ts]
                    /\ UNCHANGED <<reads, pc, result, calls, doc, first>>
         /\ UNCHANGED <<g, start>>

\* a file is on the stack twice: nothing will ever stop the recursion
Overflow == /\ pc = "run" /\ HasDup
            /\ Finish("overflow", <<>>)
            /\ UNCHANGED <<g, start, processed, reads, calls>>

Next == \/ Call \/ SkipProcessed \/ EnterStart
        \/ \E k \in {"wk", "noloc", "processed"} : ImportSkip(k)
        \/ ImportMissing
        \/ \E t \in File : ImportRecurse(t)
        \/ Leave \/ Overflow

Fair == WF_vars(Next)

---------------------------------------------------------------------------
(* Declarative side: what the properties talk about *)

RECURSIVE ReachFrom(_, _)
ReachFrom(S, seen) ==
  LET n == (UNION {{g[f][i] : i \in 1..Len(g[f])} \cap File : f \in S}) \ seen
  IN IF n = {} THEN seen ELSE ReachFrom(n, seen \cup n)
Reach == ReachFrom({start}, {start})

\* does the import closure contain a dangling schemaLocation ?
Dangling == \E f \in Reach : \E i \in 1..Len(g[f]) : g[f][i] = "missing"

ZRange(s) == {s[i] : i \in 1..Len(s)}
Count(s, x) == Cardinality({i \in 1..Len(s) : s[i] = x})

\* C11: no file is ever being read twice at the same time (safety form of termination)
NoReentry == ~HasDup
\* C11: a call never ends in a stack overflow
NoOverflow == result # "overflow"
\* C11: each reachable file is parsed exactly once per call, others never
Once == (pc = "done" /\ result = "doc" /\ ~Dangling)
           => \A f \in File : reads[f] = IF f \in Reach THEN 1 ELSE 0
NoUnreachable == \A f \in File : f \notin Reach => reads[f] = 0
\* C11: the document holds the components of every reachable file exactly once, nothing else
Complete == (pc = "done" /\ ~Dangling)
              => /\ result = "doc"
                 /\ \A f \in File : Count(doc, f) = IF f \in Reach THEN 1 ELSE 0
\* a dangling import is reported as an error, never swallowed
DanglingIsError == (pc = "done" /\ Dangling) => result = "err"
\* C12 (histories): every call on the same object returns what the first call returned
RepeatSame == (pc = "done" /\ first # None) => (first.result = result /\ first.doc = doc)
\* C11: every call terminates
Terminates == (pc = "call") ~> (pc = "done")
=======================================================================
