--------------------------- MODULE Cli ---------------------------
(***************************************************************************)
(* L4: the command line tool (zeep/src/main.rs + utils.rs) over a file      *)
(* system.  One run is a sequence of stages; each can fail:                 *)
(*   locate    the input path must name a file                              *)
(*   scan      the directory of the input is listed and every *.xsd read    *)
(*   create    the output file is created (truncated)                       *)
(*   read      XmlReader::read_xml                                          *)
(*   write     write_xml into the output                                    *)
(* Repaired design: locate, scan, read, generate (in memory), then create   *)
(* and write - so nothing touches the old output before success is certain. *)
(* Deviations:                                                              *)
(*   "D01" a bare file name has the parent "" and read_dir("") fails        *)
(*   "D02" the output is created (truncated) BEFORE the input is read, so   *)
(*         a failure in read/generate leaves an empty file behind           *)
(***************************************************************************)
EXTENDS Naturals, Sequences, FiniteSets, TLC

CONSTANT Dev

VARIABLES scn,     \* scenario: [spelling, out, pre, fail, sib]
          pc,      \* remaining stages
          outf,    \* state of the output file: "absent" | "old" | "empty" | "new"
          exit     \* "running" | "ok" | "error"
vars == <<scn, pc, outf, exit>>

Spellings == {"abs", "rel", "dotrel", "bare"}
Outs == {"default", "explicit_same", "explicit_other"}
\* what the output path holds before the run: nothing, unrelated shorter / longer text, an empty file, the beginning of
\* what is about to be written, or that text followed by more (the last three look "almost up to date")
Pres == {"absent", "shorter", "longer", "empty", "prefix_of_new", "new_plus_tail"}
Fails == {"none", "missing_input", "bad_xml", "unresolved_import", "unsupported_binding", "unsupported_binding_parts", "reachable_unreadable", "out_dir_missing"}
\* how the files of the input directory are stored: all regular files, the imported sibling a symbolic link to a regular
\* file kept elsewhere, or the input itself such a link.  The CONTENTS of the directory are the same in all three, so
\* nothing below depends on `sib` - which is the statement "the result depends on file contents only".
\* "import_cycle": regular files, and the imported sibling imports the input back (the input is then looked up by its
\* bare name, whatever the spelling on the command line)
Sibs == {"regular", "symlink_sibling", "symlink_input", "import_cycle"}
Scenarios == {s \in [spelling : Spellings, out : Outs, pre : Pres, fail : Fails, sib : Sibs] :
                /\ (s.sib # "regular" => (s.fail \in {"none", "unresolved_import", "bad_xml"} /\ s.pre \in {"absent", "longer"}))
                /\ (s.pre \in {"empty", "prefix_of_new", "new_plus_tail"} => (s.fail \in {"none", "bad_xml"} /\ s.spelling \in {"abs", "bare"}))}

\* which stage a failure class strikes
FailStage(f) == CASE f = "missing_input" -> "locate"
                  [] f = "reachable_unreadable" -> "scan"
                  [] f \in {"bad_xml", "unresolved_import", "unsupported_binding", "unsupported_binding_parts"} -> "read"
                  [] f = "out_dir_missing" -> "create"
                  [] OTHER -> "never"
Order == IF "D02" \in Dev THEN <<"locate", "scan", "create", "read", "write">>
         ELSE <<"locate", "scan", "read", "create", "write">>

Init == /\ scn \in Scenarios
        /\ pc = Order
        /\ outf = (IF scn.pre = "absent" THEN "absent" ELSE "old")
        /\ exit = "running"

Fails_(st) == \/ FailStage(scn.fail) = st
              \/ (st = "scan" /\ scn.spelling = "bare" /\ "D01" \in Dev)

Step == /\ exit = "running" /\ pc # <<>>
        /\ LET st == Head(pc) IN
           IF Fails_(st)
           THEN /\ exit' = "error" /\ pc' = <<>> /\ UNCHANGED outf
           ELSE /\ pc' = Tail(pc)
                /\ outf' = CASE st = "create" -> "empty" [] st = "write" -> "new" [] OTHER -> outf
                /\ exit' = IF Tail(pc) = <<>> THEN "ok" ELSE exit
        /\ UNCHANGED scn
Next == Step
Spec == Init /\ [][Next]_vars /\ WF_vars(Next)

Old == IF scn.pre = "absent" THEN "absent" ELSE "old"
\* C17
SuccessWritesNew == exit = "ok" => outf = "new"
FailureKeepsOld == exit = "error" => outf = Old
SucceedsIffNoFailure == exit # "running" => (exit = "ok" <=> scn.fail = "none")
Terminates == <>(exit # "running")

\* the run as a function (for judging observed runs)
Outcome(s, D) ==
  LET order == IF "D02" \in D THEN <<"locate", "scan", "create", "read", "write">> ELSE <<"locate", "scan", "read", "create", "write">>
      bad(st) == FailStage(s.fail) = st \/ (st = "scan" /\ s.spelling = "bare" /\ "D01" \in D)
      first == IF \E i \in 1..5 : bad(order[i]) THEN CHOOSE i \in 1..5 : bad(order[i]) /\ \A j \in 1..(i - 1) : ~bad(order[j]) ELSE 6
      created == \E i \in 1..(first - 1) : order[i] = "create"
      old == IF s.pre = "absent" THEN "absent" ELSE "old"
  IN IF first = 6 THEN [exit |-> "ok", outf |-> "new"]
     ELSE [exit |-> "error", outf |-> IF created THEN "empty" ELSE old]
=======================================================================
