--------------------------- MODULE Emit ---------------------------
(***************************************************************************)
(* L3 (C14): where schema-supplied text flows into the emitted Rust file    *)
(* and in which lexical context it lands there.                             *)
(* A site is [id, src, ctx, esc]:                                           *)
(*   src  what the schema supplies: "name" | "enum" | "facet" | "doc" |     *)
(*        "uri" | "address" | "action" | "opname"                           *)
(*   ctx  the lexical context of the emitted text: "ident" | "str" |        *)
(*        "fmt_str" | "doc_comment" | "block_comment" | "line_comment" |    *)
(*        "code"                                                            *)
(*   esc  what the emitter does to the text first: "none" | "rust_str"      *)
(*        (escaped as a Rust string literal) | "lines" (one comment line    *)
(*        per line of text) | "one_line" (line breaks removed) | "number"   *)
(*        (only a numeral is let through, printed from its value) | "case" (case-converted to an    *)
(*        identifier, keywords renamed)                                     *)
(* Safe(c, s) says whether a payload of class c stays DATA at site s, i.e.  *)
(* is still inside the literal / comment / identifier it was meant for.     *)
(* Deviation "D25" = the emitter as built (nothing escaped, doc comments    *)
(* split on LF only, operation names in a block comment, facet values       *)
(* copied verbatim into code).                                              *)
(***************************************************************************)
EXTENDS Naturals, FiniteSets, TLC

CONSTANT Dev

\* "nonxid": characters that are alphanumeric for Unicode but not identifier characters (superscripts, circled digits,
\* fractions), in front of everything else
Classes == {"plain", "quote", "backslash", "braces", "lf", "cr", "comment_end", "comment_start", "inject", "nonascii", "nonxid"}
\* lexical forms of an XSD integer (they only make sense where a numeral is expected: facet values): explicit plus sign,
\* leading zeros, surrounding white space, minus sign.  All of them ARE numerals; not all of them are Rust literals.
NumClasses == {"num_plus", "num_zeros", "num_space", "num_neg"}

SitesRepaired ==
  { [id |-> "field_rename", src |-> "name", ctx |-> "str", esc |-> "rust_str"],
    [id |-> "struct_rename", src |-> "name", ctx |-> "str", esc |-> "rust_str"],
    [id |-> "part_rename", src |-> "name", ctx |-> "str", esc |-> "rust_str"],
    [id |-> "struct_ident", src |-> "name", ctx |-> "ident", esc |-> "case"],
    [id |-> "field_ident", src |-> "name", ctx |-> "ident", esc |-> "case"],
    [id |-> "method_ident", src |-> "name", ctx |-> "ident", esc |-> "case"],
    [id |-> "enum_value", src |-> "enum", ctx |-> "str", esc |-> "rust_str"],
    [id |-> "facet_value", src |-> "facet", ctx |-> "code", esc |-> "number"],
    [id |-> "doc_line", src |-> "doc", ctx |-> "doc_comment", esc |-> "lines"],
    [id |-> "ns_uri", src |-> "uri", ctx |-> "str", esc |-> "rust_str"],
    \* the module name and the XML prefix made of the URI's last segment ("abbrev": up to three identifier characters)
    [id |-> "ns_module", src |-> "uri", ctx |-> "ident", esc |-> "abbrev"],
    [id |-> "address", src |-> "address", ctx |-> "str", esc |-> "rust_str"],
    [id |-> "action_url", src |-> "action", ctx |-> "str", esc |-> "rust_str"],
    [id |-> "op_comment", src |-> "opname", ctx |-> "line_comment", esc |-> "one_line"] }

AsBuilt(s) == CASE s.id = "op_comment" -> [s EXCEPT !.ctx = "block_comment", !.esc = "none"]
                [] s.id = "facet_value" -> [s EXCEPT !.esc = "none"]
                [] s.id = "doc_line" -> [s EXCEPT !.esc = "lf_only"]
                [] s.ctx = "str" -> [s EXCEPT !.esc = "none"]
                [] OTHER -> s
Sites == IF "D25" \in Dev THEN {AsBuilt(s) : s \in SitesRepaired} ELSE SitesRepaired

\* does a payload of class c stay data at site s ?
Safe(c, s) ==
  CASE s.ctx = "str" -> (s.esc = "rust_str" \/ c \in {"plain", "braces", "lf", "comment_end", "comment_start", "nonascii"})
    \* the format string of a formatting macro (debug!, format!, write!): braces are placeholders and captured names
    [] s.ctx = "fmt_str" -> (s.esc = "rust_fmt" \/ (s.esc = "rust_str" /\ c # "braces"))
    [] s.ctx = "doc_comment" -> (s.esc = "lines" \/ c # "cr")          \* a bare CR is not allowed in a doc comment
    [] s.ctx = "line_comment" -> (s.esc = "one_line" \/ c \notin {"lf", "cr"})
    [] s.ctx = "block_comment" -> c \notin {"comment_end", "comment_start"}
    \* anything that is not a numeral must be kept out, and a numeral must arrive as a Rust literal of the same value:
    \* "number" = parsed and printed again; "number_checked" = parsed for validation, the schema's text copied
    [] s.ctx = "code" -> (s.esc = "number" \/ (s.esc = "number_checked" /\ c \in NumClasses \ {"num_plus"}))
    [] s.ctx = "ident" -> (s.esc \in {"case", "abbrev"})               \* both keep identifier characters only (D44, D45)
    [] OTHER -> FALSE

\* C14 at design level
AllSafe == /\ \A s \in Sites, c \in Classes : Safe(c, s)
           /\ \A s \in {x \in Sites : x.src = "facet"}, c \in NumClasses : Safe(c, s)
=======================================================================
