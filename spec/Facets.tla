--------------------------- MODULE Facets ---------------------------
(***************************************************************************)
(* L6: the restriction check of helpers_content.rs `restrictions`, written  *)
(* twice.                                                                   *)
(*   Sat(c)    declarative: XSD facet semantics, as property C06 states it  *)
(*   Built(c)  operational: the CheckRestrictions impls, branch by branch   *)
(*             (i32; the widening macro for the other integer carriers;     *)
(*             String with its numeric-text path; Option; Vec; bool/f32/f64) *)
(* Deviations (Dev):                                                        *)
(*   "D20"  the four range comparisons are wrong exactly on the bound       *)
(*   "D21"  a value outside the i32 range is rejected before the            *)
(*          restriction set is even looked at (integer carriers: try_from;  *)
(*          numeral strings: parse::<i32>)                                  *)
(*                                                                          *)
(* The integer line is abstract: offsets around an anchor chosen by the     *)
(* concretiser (0, near the carrier's MAX, near its MIN), plus the two      *)
(* points LOW and HIGH that lie outside the i32 range (bounds are i32).     *)
(* A facet is a set: {} = absent, {b} = present with bound b.               *)
(***************************************************************************)
EXTENDS Integers, Sequences, FiniteSets, TLC

CONSTANT Dev

LOW == -100      \* below i32::MIN
HIGH == 100      \* above i32::MAX
Offsets == -2..2
BoundVals == -1..1

IntCarriers == {"i8", "u8", "i16", "u16", "i32", "u32", "i64", "u64"}
OtherCarriers == {"bool", "f32", "f64"}
ValuesOf(c) == Offsets \cup (IF c = "i64" THEN {LOW} ELSE {}) \cup (IF c \in {"u32", "i64", "u64"} THEN {HIGH} ELSE {})

NoR == [present |-> FALSE, minInc |-> {}, maxInc |-> {}, minExc |-> {}, maxExc |-> {},
        len |-> {}, minLen |-> {}, maxLen |-> {}, enum |-> "absent"]

HasNumeric(R) == R.minInc # {} \/ R.maxInc # {} \/ R.minExc # {} \/ R.maxExc # {}

---------------------------------------------------------------------------
(* declarative *)
NumSat(v, R) == /\ \A b \in R.minInc : v >= b
                /\ \A b \in R.maxInc : v <= b
                /\ \A b \in R.minExc : v > b
                /\ \A b \in R.maxExc : v < b

\* a string value: [len |-> character count, num |-> {} or {numeric value of the numeral}]
StrSat(s, R) == /\ \A n \in R.len : s.len = n
                /\ \A n \in R.minLen : s.len >= n
                /\ \A n \in R.maxLen : s.len <= n
                /\ R.enum \in {"absent", "has"}
                /\ HasNumeric(R) => (s.num # {} /\ \A v \in s.num : NumSat(v, R))

ItemSat(carrier, v, R) ==
  IF ~R.present THEN TRUE
  ELSE IF carrier \in OtherCarriers THEN TRUE
  ELSE IF carrier = "String" THEN StrSat(v, R)
  ELSE NumSat(v, R)

\* c = [carrier, wrap, vals, R]; wrap in {"bare","some","none","vec"}
Sat(c) == \A i \in 1..Len(c.vals) : ItemSat(c.carrier, c.vals[i], c.R)

---------------------------------------------------------------------------
(* operational, as built; D = the set of deviations switched on *)
NumCheck(v, R, D) ==
  IF "D20" \in D
  THEN /\ \A b \in R.minInc : ~(v <= b)
       /\ \A b \in R.maxInc : ~(b <= v)
       /\ \A b \in R.minExc : ~(v < b)
       /\ \A b \in R.maxExc : ~(b < v)
  ELSE /\ \A b \in R.minInc : ~(v < b)
       /\ \A b \in R.maxInc : ~(b < v)
       /\ \A b \in R.minExc : ~(v <= b)
       /\ \A b \in R.maxExc : ~(b <= v)

FitsI32(v) == v # LOW /\ v # HIGH

\* impl CheckRestrictions for i32 / impl_check_restrictions_for_int!
IntCheck(carrier, v, R, D) ==
  IF carrier # "i32" /\ "D21" \in D /\ ~FitsI32(v) THEN FALSE   \* i32::try_from fails first
  ELSE IF ~R.present THEN TRUE
  ELSE NumCheck(v, R, D)

\* impl CheckRestrictions for String
StrCheck(s, R, D) ==
  IF ~R.present THEN TRUE
  ELSE IF \E n \in R.minLen : s.len < n THEN FALSE
  ELSE IF \E n \in R.maxLen : n < s.len THEN FALSE
  ELSE IF \E n \in R.len : n # s.len THEN FALSE
  ELSE IF R.enum \in {"hasnot", "empty"} THEN FALSE
  ELSE IF ~HasNumeric(R) THEN TRUE
  ELSE IF s.num = {} THEN FALSE                                   \* parse error -> Restriction error
  ELSE \A v \in s.num : IF "D21" \in D /\ ~FitsI32(v) THEN FALSE ELSE NumCheck(v, R, D)

ItemCheck(carrier, v, R, D) ==
  IF carrier \in OtherCarriers THEN TRUE
  ELSE IF carrier = "String" THEN StrCheck(v, R, D)
  ELSE IntCheck(carrier, v, R, D)

\* Option: None -> Ok; Vec: first failing item fails the lot; both forward the restriction set unchanged
BuiltD(c, D) == \A i \in 1..Len(c.vals) : ItemCheck(c.carrier, c.vals[i], c.R, D)
Built(c) == BuiltD(c, Dev)
\* the listed deviations without which the as-built result would differ (attribution of a known instance)
Blame(c) == LET needed == {d \in Dev : BuiltD(c, Dev \ {d}) # BuiltD(c, Dev)}
            IN IF needed # {} THEN needed ELSE {d \in Dev : BuiltD(c, {d}) = BuiltD(c, Dev)}

---------------------------------------------------------------------------
(* C06 at design level: with no deviation the operational reading and the declarative one coincide *)
Agree(c) == Built(c) = Sat(c)
=======================================================================
