--------------------------- MODULE RegistryInd ---------------------------
(***************************************************************************)
(* The repaired design of the namespace registry (spec/Registry.tla with no *)
(* deviation), reduced to its essence for Apalache: one registry per        *)
(* generation, a namespace is registered once, and a new namespace gets ANY *)
(* suffix that no namespace with the same abbreviation base carries.        *)
(* URIs and suffixes are unbounded integers; the abbreviation base is an    *)
(* uninterpreted function of the URI.  IndInv is inductive:                 *)
(*   apalache-mc check --init=IndInit --inv=IndInv --length=1 (step)        *)
(*   apalache-mc check --init=Init    --inv=IndInv --length=0 (base)        *)
(* and implies C10's injectivity clauses (Injective).                       *)
(***************************************************************************)
EXTENDS Integers, FiniteSets, Apalache

CONSTANT
  \* the abbreviation base of a URI (uninterpreted)
  \* @type: Int -> Int;
  BaseOf

VARIABLE
  \* @type: Set({uri: Int, base: Int, n: Int});
  reg

\* any abbreviation function over a bounded sample of URIs (Apalache generates it)
CInit == BaseOf = Gen(8)

Init == reg = {}

Register(u) ==
  IF \E r \in reg : r.uri = u
  THEN UNCHANGED reg                                   \* alias: the same record is used again
  ELSE \E k \in Nat :
         /\ \A r \in reg : ~(r.base = BaseOf[u] /\ r.n = k)
         /\ reg' = reg \cup {[uri |-> u, base |-> BaseOf[u], n |-> k]}

Next == \E u \in DOMAIN BaseOf : Register(u)

\* C10: the label (base, suffix) determines the URI and the URI determines the label
Injective == /\ \A a, b \in reg : (a.base = b.base /\ a.n = b.n) => a.uri = b.uri
             /\ \A a, b \in reg : a.uri = b.uri => (a.base = b.base /\ a.n = b.n)
WellFormed == \A r \in reg : r.uri \in DOMAIN BaseOf /\ r.base = BaseOf[r.uri] /\ r.n >= 0
IndInv == Injective /\ WellFormed
\* a state of bounded size (Apalache generates it) that satisfies the invariant
IndInit == reg = Gen(6) /\ IndInv
=======================================================================
