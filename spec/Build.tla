--------------------------- MODULE Build ---------------------------
(***************************************************************************)
(* L2/L3 at component level, OPERATIONAL: what zeep's reader builds for a   *)
(* schema set, written the way the code walks the XML tree                  *)
(* (node.rs, structures/complex.rs, structures/element.rs, field.rs,        *)
(* doc.rs find_node_by_xml_name), and what the writer then emits.           *)
(*                                                                          *)
(* D = set of deviations switched on (the code as it was built):            *)
(*  "D08" maxOccurs = n > 1 is not a Vec (only "unbounded" is)              *)
(*  "D09" a choice branch is not optional                                   *)
(*  "D10" `return` on a nested sequence drops the particles that follow it  *)
(*  "D11" only the immediate parent's occurrence is inspected               *)
(*  "D12" the attributes of an extension that has no sequence are dropped    *)
(*  "D14" a struct declares only its own namespace: the prefix of a member  *)
(*        that belongs to another namespace is unbound                      *)
(*  "D13" attribute fields carry the element prefix                         *)
(*  "D23a" look-up of an extension base is blind to the component kind: a   *)
(*        global element of the same name that comes first is taken and     *)
(*        nothing is inherited                                              *)
(*  "D30" a choice that is the whole content of a complexType (not inside   *)
(*        a sequence or an extension) is not read: the struct has no        *)
(*        element members                                                   *)
(*  "D32" xs:all is not read: neither as the whole content of a type nor    *)
(*        inside an extension; the struct has none of its members           *)
(*  "D35" only 27 of the builtins of XSD are in the table: token, NCName,    *)
(*        ID, QName, gYear, anySimpleType ... become a path to a type that   *)
(*        does not exist                                                    *)
(*  "D37" ref= without a prefix: the member carries no namespace            *)
(*  "D39" elementFormDefault / form are ignored: every local element is     *)
(*        qualified (XSD's default is unqualified)                          *)
(*  "D23c" a user type whose local name is that of an XSD builtin (date,    *)
(*        string, ...) is taken for the builtin                             *)
(* With D = {} the walk is the repaired code.                               *)
(***************************************************************************)
EXTENDS Schema

Par(min, max) == [min |-> min, max |-> max]

\* as_rust_type: "D23c" = the builtin table is consulted by local name only, whatever the prefix says
\* "D35": a builtin of XSD that the table does not know is taken for a user type that nobody defines
BuiltTarget(S, f, it, ty, D) ==
  IF "D35" \in D /\ ty.k = "builtin" /\ ty.n \in TextBuiltins THEN [k |-> "unresolved"]
  ELSE IF "D23c" \in D /\ ty.k = "named" /\ ty.n \in Builtins THEN [k |-> "builtin", rust |-> Carrier(ty.n)]
  ELSE TargetOf(S, f, it, ty)

\* Field::try_from_node for a local element p under a particle with occurrence par
MkField(S, f, it, p, par, inchoice, D) ==
  LET opt == p.min = 0 \/ par.min = 0
      vec == IF "D08" \in D THEN (p.max = "unb" \/ par.max = "unb") ELSE (p.max # "1" \/ par.max # "1")
      w == IF vec THEN "Vec" ELSE IF opt \/ (inchoice /\ "D09" \notin D) THEN "Option" ELSE "Bare"
  \* "D39": every local element is given the target namespace, whatever its form
  IN [xml |-> p.n, attr |-> FALSE, w |-> w, target |-> BuiltTarget(S, f, it, p.ty, D), ns |-> IF "D39" \in D THEN f.tns ELSE ElNs(f, p)]

MkRefField(S, f, it, p, par, inchoice, D) ==
  LET opt == p.min = 0 \/ par.min = 0
      vec == IF "D08" \in D THEN (p.max = "unb" \/ par.max = "unb") ELSE (p.max # "1" \/ par.max # "1")
      w == IF vec THEN "Vec" ELSE IF opt \/ (inchoice /\ "D09" \notin D) THEN "Option" ELSE "Bare"
      e == ResolveElem(S, f, it, p.ref)
  IN IF e = None THEN [xml |-> p.ref.n, attr |-> FALSE, w |-> w, target |-> [k |-> "dangling"], ns |-> "?"]
     \* "D37": a reference written without a prefix (default namespace) gets no namespace at all: the member is unqualified
     ELSE [xml |-> e.n, attr |-> FALSE, w |-> w, target |-> ElemTarget(S, e), ns |-> IF "D37" \in D /\ p.ref.p = "" THEN "unqualified" ELSE e.ns]

MkAttr(S, f, it, a, D) ==
  [xml |-> a.n, attr |-> TRUE, w |-> IF a.use = "req" THEN "Bare" ELSE "Option",
   target |-> BuiltTarget(S, f, it, a.ty, D), ns |-> IF "D13" \in D THEN f.tns ELSE "unqualified"]

\* import_sequence_node_fields: the children of one sequence/choice element whose own occurrence is `par`
\* acc = occurrence accumulated from the enclosing particles (used by the repaired code only)
RECURSIVE Walk(_, _, _, _, _, _, _)
Walk(S, f, it, ps, par, inchoice, D) ==
  IF ps = <<>> THEN <<>> ELSE
  LET p == Head(ps)
      sub(q) == IF "D11" \in D THEN Par(q.min, q.max)
                ELSE Par(IF par.min = 0 \/ inchoice THEN 0 ELSE q.min, MaxMul(q.max, par.max))
  IN CASE p.k = "el" -> <<MkField(S, f, it, p, par, inchoice, D)>> \o Walk(S, f, it, Tail(ps), par, inchoice, D)
       [] p.k = "ref" -> <<MkRefField(S, f, it, p, par, inchoice, D)>> \o Walk(S, f, it, Tail(ps), par, inchoice, D)
       [] p.k = "choice" -> Walk(S, f, it, p.ps, IF "D11" \in D THEN Par(PMin(p), PMax(p))
                                                ELSE Par(IF PMin(p) = 0 THEN 0 ELSE par.min, MaxMul(PMax(p), par.max)), TRUE, D)
                            \o Walk(S, f, it, Tail(ps), par, inchoice, D)
       [] p.k = "seq" -> IF "D10" \in D THEN Walk(S, f, it, p.ps, sub(p), FALSE, D)
                         ELSE Walk(S, f, it, p.ps, sub(p), FALSE, D) \o Walk(S, f, it, Tail(ps), par, inchoice, D)
       [] OTHER -> Walk(S, f, it, Tail(ps), par, inchoice, D)

\* content = << top-level sequence >>, << top-level choice >> or <<>>
\* inext: the content stands inside xs:extension (whose children import_sequence_node_fields walks, choice included);
\* "D30": ComplexProps::try_from_node only looks for `sequence` among the children of complexType itself
TopWalk(S, f, it, content, inext, D) ==
  IF content = <<>> THEN <<>>
  ELSE LET top == content[1] IN
       IF top.k = "seq" THEN Walk(S, f, it, top.ps, Par(top.min, top.max), FALSE, D)
       ELSE IF top.k = "choice" /\ ("D30" \notin D \/ inext) THEN Walk(S, f, it, top.ps, Par(PMin(top), PMax(top)), TRUE, D)
       ELSE IF top.k = "all" /\ "D32" \notin D THEN Walk(S, f, it, top.ps, Par(PMin(top), "1"), FALSE, D)
       ELSE <<>>

Attrs(S, f, it, as, D) == [i \in 1..Len(as) |-> MkAttr(S, f, it, as[i], D)]

\* which component a base QName is bound to by the code's look-up
\* as built (D23a): first node in reading order with that name and namespace, whatever its kind
BaseLookup(S, f, it, ty, D) ==
  LET u == UriOf(f, it, ty.p)
      ts == {t \in TypesOf(S) : t.ns = u /\ t.n = ty.n}
      es == {e \in ElemsOf(S) : e.ns = u /\ e.n = ty.n}
  IN IF "D23a" \in D /\ es # {} /\ ts # {} THEN
          \* both exist: the one that is read first wins; within one file that is document order
          LET t == CHOOSE x \in ts : TRUE
              e == CHOOSE x \in es : TRUE
              tf == FileNamed(S, t.f)
              pos(c) == CHOOSE i \in 1..Len(tf.items) : tf.items[i] = c.it
          IN IF t.f = e.f /\ pos(e) < pos(t) THEN [k |-> "element"] ELSE t
     ELSE IF ts # {} THEN CHOOSE x \in ts : TRUE
     ELSE IF es # {} THEN [k |-> "element"]
     ELSE None

RECURSIVE BuiltFields(_, _, _, _, _, _)
BuiltFields(S, f, it, body, fuel, D) ==
  IF HasBase(body) /\ fuel > 0
  THEN LET b == BaseLookup(S, f, it, body.base, D)
           inherited == IF b = None THEN <<>>     \* (the component is dropped; see Dropped)
                        ELSE IF b.k # "complex" THEN <<>>
                        ELSE BuiltFields(S, FileNamed(S, b.f), b.it, b.it, fuel - 1, D)
           own == IF "D12" \in D /\ body.content = <<>>
                  THEN <<>>      \* the extension's children are only visited when one of them is a sequence
                  ELSE TopWalk(S, f, it, body.content, TRUE, D) \o Attrs(S, f, it, body.attrs, D)
       IN inherited \o own
  ELSE TopWalk(S, f, it, body.content, FALSE, D) \o Attrs(S, f, it, body.attrs, D)

\* the namespace a field's prefix is bound to on the struct generated for a component of namespace own
BindNs(fs, own, D) == [i \in 1..Len(fs) |-> IF "D14" \in D /\ fs[i].ns \notin {own, "unqualified", "?"}
                                           THEN [fs[i] EXCEPT !.ns = "unbound"] ELSE fs[i]]

\* a component whose conversion fails is dropped silently by read_xsd (`if let Ok(..)`)
RECURSIVE HasDangling(_)
HasDangling(fs) == \E i \in 1..Len(fs) : fs[i].target.k = "dangling" /\ ~fs[i].attr /\ fs[i].ns = "?"
\* "D43" (open): an xs:annotation inside a model group (field `doc` of a particle) or inside xs:extension (`ext_doc`) is
\* taken for a member, its conversion fails and the whole type is dropped (complex.rs import_sequence_node_fields)
RECURSIVE HasDocP(_)
HasDocP(ps) == \E i \in 1..Len(ps) : "doc" \in DOMAIN ps[i] \/ (ps[i].k \in {"seq", "choice", "all"} /\ HasDocP(ps[i].ps))
DocInside(b) == "ext_doc" \in DOMAIN b \/ HasDocP(b.content)
Dropped(S, c, D) == LET f == FileNamed(S, c.f) IN
  /\ "content" \in DOMAIN BodyOf(c)
  /\ \/ (HasBase(BodyOf(c)) /\ BaseLookup(S, f, c.it, BodyOf(c).base, D) = None)
     \/ HasDangling(BuiltFields(S, f, c.it, BodyOf(c), 8, D))
     \/ ("D43" \in D /\ DocInside(BodyOf(c)))

---------------------------------------------------------------------------
(* C02 / C08: violation instances of a field list `got` against the declarative expectation `exp`.  *)
(* Both are sequences of [xml, attr, w, target, ns].                                                  *)
Idx(fs, x) == {i \in 1..Len(fs) : fs[i].xml = x.xml /\ fs[i].attr = x.attr}
FieldViol(exp, got) ==
     {[clause |-> "one_field", subj |-> e.xml, exp |-> ToString(Cardinality(Idx(exp, e))), got |-> ToString(Cardinality(Idx(got, e)))] :
         e \in {x \in ZRange(exp) : Cardinality(Idx(got, x)) # Cardinality(Idx(exp, x))}}
  \cup {[clause |-> "wrapper", subj |-> e.xml, exp |-> e.w, got |-> g.w] :
         <<e, g>> \in {<<x, y>> \in ZRange(exp) \X ZRange(got) : x.xml = y.xml /\ x.attr = y.attr /\ x.w # y.w
                                                                 /\ Cardinality(Idx(exp, x)) = 1 /\ Cardinality(Idx(got, x)) = 1}}
  \cup {[clause |-> "carrier", subj |-> e.xml, exp |-> ToString(e.target), got |-> ToString(g.target)] :
         <<e, g>> \in {<<x, y>> \in ZRange(exp) \X ZRange(got) : x.xml = y.xml /\ x.attr = y.attr /\ x.target # y.target
                                                                 /\ Cardinality(Idx(exp, x)) = 1 /\ Cardinality(Idx(got, x)) = 1}}
  \cup {[clause |-> "member_ns", subj |-> e.xml, exp |-> e.ns, got |-> g.ns] :
         <<e, g>> \in {<<x, y>> \in ZRange(exp) \X ZRange(got) : x.xml = y.xml /\ x.attr = y.attr /\ x.ns # y.ns
                                                                 /\ Cardinality(Idx(exp, x)) = 1 /\ Cardinality(Idx(got, x)) = 1}}
  \cup {[clause |-> "no_extra", subj |-> g.xml, exp |-> "0", got |-> "1"] :
         g \in {y \in ZRange(got) : Idx(exp, y) = {}}}
  \cup {[clause |-> "order", subj |-> "fields", exp |-> "declaration order, base first", got |-> "permuted"] :
         x \in {1} \cap (IF Len(exp) = Len(got) /\ (\A i \in 1..Len(exp) : Idx(got, exp[i]) # {})
                            /\ (\E i \in 1..Len(exp) : got[i].xml # exp[i].xml \/ got[i].attr # exp[i].attr)
                            /\ (\A i \in 1..Len(exp) : Cardinality(Idx(exp, exp[i])) = 1)
                         THEN {1} ELSE {})}
=======================================================================
