--------------------------- MODULE Lookup ---------------------------
(***************************************************************************)
(* L2: how the components of ONE schema file are converted and how they     *)
(* find each other (reader.rs read_xsd, doc.rs find_node_by_xml_name /      *)
(* declares / try_to_find_node_by_xml_name_in_xml_doc, field.rs,            *)
(* structures/complex.rs import_extension_fields).                          *)
(*                                                                          *)
(* A component refers to others in two ways:                                *)
(*   "name"   ref= of an element or group: only the NAME of the target is   *)
(*            needed (the member is typed by the target's struct)           *)
(*   "value"  base= of an extension: the target's MEMBERS are copied, so    *)
(*            the target has to be converted first                          *)
(* A by-value look-up goes: list of converted components (this file's and   *)
(* those handed down by importers) -> forward memo -> search of the XML     *)
(* tree, which converts the target on the spot.  While a target is being    *)
(* converted it is on the `resolving` stack; meeting it again yields a      *)
(* member-less stand-in (so that invalid, cyclic schemas terminate).        *)
(*                                                                          *)
(* (The model is per schema: since D46 list, memo and tree search all go by  *)
(* name, namespace and kind, so the schemas of one file do not interfere.)  *)
(*                                                                          *)
(* One action per step of the code:                                         *)
(*   StartDecl    read_xsd takes the next top-level child                   *)
(*   ByName       Field::try_from_node on ref=: RustDocument::declares      *)
(*   HitList      find_node_by_xml_name: found among the converted          *)
(*   HitMemo      ... found in forward_nodes                                *)
(*   StandIn      tree search meets a component that is being converted     *)
(*   Descend      tree search converts the target (push on resolving)       *)
(*   Missing      nothing of that name: the conversion fails                *)
(*   FinishTop    the top-level conversion is done: push_node               *)
(*   FinishInner  a forward conversion is done: pop resolving, memoise      *)
(*   Fail         a failed conversion unwinds one frame                     *)
(*                                                                          *)
(* Deviations (Dev):                                                        *)
(*   "D36"  ref= resolves by VALUE (the code before the repair): cycles     *)
(*          through references reach components under conversion, stand-ins *)
(*          are handed out for VALID schemas and what is built from them is *)
(*          memoised                                                        *)
(*   "memo_when_idle"  the memo is only filled when nothing is being        *)
(*          resolved (seeded changes C13-b/c): work explodes                *)
(***************************************************************************)
EXTENDS Naturals, Sequences, FiniteSets, TLC

CONSTANTS Comp,     \* the global components of the file (model values or strings)
          Dev

VARIABLES order,      \* Seq(Comp): document order of the declarations
          refs,       \* [Comp -> Seq([to : Comp \cup {"nowhere"}, how : {"name", "value"}])]
          known,      \* SUBSET Comp: converted before this file was entered (handed down by an importer)
          pos,        \* index of the next top-level declaration
          nodes,      \* Seq(Comp): converted and pushed (doc.nodes), in order
          memo,       \* SUBSET Comp: forward_nodes
          resolving,  \* Seq(Comp)
          stack,      \* Seq([c, todo, top, tainted]): conversions in progress
          failed,     \* BOOLEAN: the innermost conversion has failed and is unwinding
          complete,   \* [Comp -> BOOLEAN]: was the LAST finished conversion of c built without a stand-in (directly or through the memo)
          memoOK,     \* [Comp -> BOOLEAN]: is the memo entry of c complete
          work,       \* [Comp -> Nat]: how often c has been converted
          standins    \* Nat: stand-ins handed out
vars == <<order, refs, known, pos, nodes, memo, resolving, stack, failed, complete, memoOK, work, standins>>

Range(s) == {s[i] : i \in 1..Len(s)}
Top == stack[Len(stack)]
Pop == SubSeq(stack, 1, Len(stack) - 1)
NextRef == Head(Top.todo)
Advance(taint) == [stack EXCEPT ![Len(stack)].todo = Tail(@), ![Len(stack)].tainted = @ \/ taint]
ByValue(r) == r.how = "value" \/ "D36" \in Dev
Listed(c) == c \in Range(nodes) \cup known
Declared(c) == c \in Range(order)

InitRest == /\ pos = 1 /\ nodes = <<>> /\ memo = {} /\ resolving = <<>> /\ stack = <<>> /\ failed = FALSE
            /\ complete = [c \in Comp |-> TRUE] /\ memoOK = [c \in Comp |-> TRUE]
            /\ work = [c \in Comp |-> 0] /\ standins = 0

StartDecl == /\ stack = <<>> /\ ~failed /\ pos <= Len(order)
             /\ stack' = <<[c |-> order[pos], todo |-> refs[order[pos]], top |-> TRUE, tainted |-> FALSE]>>
             /\ pos' = pos + 1
             /\ work' = [work EXCEPT ![order[pos]] = @ + 1]
             /\ UNCHANGED <<order, refs, known, nodes, memo, resolving, failed, complete, memoOK, standins>>

Working == stack # <<>> /\ ~failed /\ Top.todo # <<>>

ByName == /\ Working /\ ~ByValue(NextRef)
          /\ IF NextRef.to \in Comp /\ (Listed(NextRef.to) \/ Declared(NextRef.to))
             THEN stack' = Advance(FALSE) /\ UNCHANGED failed
             ELSE failed' = TRUE /\ UNCHANGED stack
          /\ UNCHANGED <<order, refs, known, pos, nodes, memo, resolving, complete, memoOK, work, standins>>

HitList == /\ Working /\ ByValue(NextRef) /\ NextRef.to \in Comp /\ Listed(NextRef.to)
           /\ stack' = Advance(~complete[NextRef.to] /\ NextRef.to \notin known)
           /\ UNCHANGED <<order, refs, known, pos, nodes, memo, resolving, failed, complete, memoOK, work, standins>>

HitMemo == /\ Working /\ ByValue(NextRef) /\ NextRef.to \in memo
           /\ ~Listed(NextRef.to)
           /\ stack' = Advance(~memoOK[NextRef.to])
           /\ UNCHANGED <<order, refs, known, pos, nodes, memo, resolving, failed, complete, memoOK, work, standins>>

Unfound == Working /\ ByValue(NextRef) /\ NextRef.to \in Comp /\ ~Listed(NextRef.to) /\ NextRef.to \notin memo

StandIn == /\ Unfound /\ Declared(NextRef.to) /\ NextRef.to \in Range(resolving)
           /\ stack' = Advance(TRUE)
           /\ standins' = standins + 1
           /\ UNCHANGED <<order, refs, known, pos, nodes, memo, resolving, failed, complete, memoOK, work>>

Descend == /\ Unfound /\ Declared(NextRef.to) /\ NextRef.to \notin Range(resolving)
           /\ resolving' = Append(resolving, NextRef.to)
           /\ stack' = Append(stack, [c |-> NextRef.to, todo |-> refs[NextRef.to], top |-> FALSE, tainted |-> FALSE])
           /\ work' = [work EXCEPT ![NextRef.to] = @ + 1]
           /\ UNCHANGED <<order, refs, known, pos, nodes, memo, failed, complete, memoOK, standins>>

Missing == /\ Working /\ ByValue(NextRef)
           /\ \/ NextRef.to \notin Comp
              \/ (~Listed(NextRef.to) /\ NextRef.to \notin memo /\ ~Declared(NextRef.to))
           /\ failed' = TRUE
           /\ UNCHANGED <<order, refs, known, pos, nodes, memo, resolving, stack, complete, memoOK, work, standins>>

FinishTop == /\ stack # <<>> /\ ~failed /\ Top.todo = <<>> /\ Top.top
             /\ nodes' = Append(nodes, Top.c)
             /\ complete' = [complete EXCEPT ![Top.c] = ~Top.tainted]
             /\ stack' = <<>>
             /\ UNCHANGED <<order, refs, known, pos, memo, resolving, failed, memoOK, work, standins>>

\* the caller continues with the converted target: what it copies is as complete as the target
FinishInner == /\ stack # <<>> /\ ~failed /\ Top.todo = <<>> /\ ~Top.top
               /\ LET rest == SubSeq(resolving, 1, Len(resolving) - 1)
                      fill == IF "memo_when_idle" \in Dev THEN rest = <<>> ELSE Top.c \notin Range(rest)
                  IN /\ resolving' = rest
                     /\ memo' = IF fill THEN memo \cup {Top.c} ELSE memo
                     /\ memoOK' = IF fill THEN [memoOK EXCEPT ![Top.c] = ~Top.tainted] ELSE memoOK
               /\ stack' = [Pop EXCEPT ![Len(Pop)].todo = Tail(@), ![Len(Pop)].tainted = @ \/ Top.tainted]
               /\ UNCHANGED <<order, refs, known, pos, nodes, failed, complete, work, standins>>

\* a failed conversion: `?` unwinds; an inner failure makes the look-up return None, which fails the caller;
\* read_xsd drops a top-level component whose conversion failed and goes on
Fail == /\ failed /\ stack # <<>>
        /\ IF Top.top THEN stack' = <<>> /\ failed' = FALSE /\ UNCHANGED resolving
           ELSE stack' = Pop /\ resolving' = SubSeq(resolving, 1, Len(resolving) - 1) /\ UNCHANGED failed
        /\ UNCHANGED <<order, refs, known, pos, nodes, memo, complete, memoOK, work, standins>>

Next == StartDecl \/ ByName \/ HitList \/ HitMemo \/ StandIn \/ Descend \/ Missing \/ FinishTop \/ FinishInner \/ Fail
Done == stack = <<>> /\ ~failed /\ pos > Len(order)

---------------------------------------------------------------------------
(* Properties *)
\* the by-value graph of the schema (what XSD requires to be acyclic: derivation)
ValueEdges == {e \in Comp \X Comp : \E i \in 1..Len(refs[e[1]]) : refs[e[1]][i].to = e[2] /\ refs[e[1]][i].how = "value"}
RECURSIVE ReachV(_, _)
ReachV(X, n) == IF n = 0 THEN X ELSE ReachV(X \cup {e[2] : e \in {e \in ValueEdges : e[1] \in X}}, n - 1)
ValidSchema == \A c \in Comp : c \notin ReachV({e[2] : e \in {e \in ValueEdges : e[1] = c}}, Cardinality(Comp))

TypeOK == /\ pos \in 1..(Len(order) + 1) /\ memo \subseteq Comp /\ Range(resolving) \subseteq Comp
          /\ Len(stack) <= Cardinality(Comp) + 1
\* (C08, D36) a valid schema never sees a stand-in ...
NoStandInIfValid == ValidSchema => standins = 0
\* ... so everything converted, pushed or memoised is complete
AllComplete == ValidSchema => (\A c \in Comp : complete[c] /\ (c \in memo => memoOK[c]))
\* the resolving stack mirrors the forward conversions in progress and never holds a component twice
ResolvingExact == /\ Len(resolving) = Cardinality(Range(resolving))
                  /\ resolving = [i \in 1..Cardinality({k \in 1..Len(stack) : ~stack[k].top}) |->
                                    stack[CHOOSE k \in 1..Len(stack) : ~stack[k].top /\ Cardinality({j \in 1..k : ~stack[j].top}) = i].c]
\* (C11 in the small, C13) every declared component is pushed at most once, and exactly once when all its references resolve
PushedOnce == \A c \in Comp : Cardinality({i \in 1..Len(nodes) : nodes[i] = c}) <= 1
\* (C13) a component is converted at most twice for a valid schema: once ahead of its declaration, once at it
AllResolvable == \A a \in Range(order) : \A i \in 1..Len(refs[a]) : refs[a][i].to \in Range(order) \cup known
BoundedWork == (ValidSchema /\ AllResolvable) => \A c \in Comp : work[c] <= 2
\* (C02, C11 in the small) WHAT the machine computes: a declared component is converted and pushed, in document order,
\* exactly when its references resolve - a name to something declared or handed down, a base to something handed down
\* or to a declared component that is itself convertible; nothing else is dropped, nothing is pushed twice
Exists(t) == t \in Range(order) \cup known
RECURSIVE Convertible(_, _)
Convertible(c, n) ==
  /\ n > 0
  /\ \A i \in 1..Len(refs[c]) :
        LET r == refs[c][i] IN
        /\ r.to \in Comp
        /\ IF r.how = "name" THEN Exists(r.to)
           ELSE r.to \in known \/ (r.to \in Range(order) /\ Convertible(r.to, n - 1))
FinalExact == (Done /\ ValidSchema) => nodes = SelectSeq(order, LAMBDA c : Convertible(c, Cardinality(Comp) + 1))
Terminates == <>Done
=======================================================================
