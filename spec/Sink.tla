--------------------------- MODULE Sink ---------------------------
(***************************************************************************)
(* L3: the writer of zeep emitting its output through std::io::Write.       *)
(*                                                                          *)
(* The generator performs a fixed sequence of write_all(buf) calls (one per *)
(* piece of every write!/writeln!).  `plan` is that sequence: the length of *)
(* each buffer and the kind of call site - "prop" (the error is propagated  *)
(* with `?`) or "unwrap" (as built, deviation "D26": the doc-comment        *)
(* closures in structures/writer.rs call `.unwrap()`).                      *)
(*                                                                          *)
(* WriteCall is one invocation of the sink's `write` from inside            *)
(* `write_all`, exactly as std implements the loop:                         *)
(*    Ok(n), n > 0     -> the first n bytes are gone, loop                  *)
(*    Ok(0)            -> Err(WriteZero)                                    *)
(*    Err(Interrupted) -> retried, not an error                             *)
(*    Err(e)           -> returned                                          *)
(* The sink is a policy: `fault` (fail the k-th call with a kind) and `cap` *)
(* (accept at most cap bytes per call; 0 = everything).                     *)
(***************************************************************************)
EXTENDS Naturals, Sequences, FiniteSets, TLC

CONSTANT Dev

VARIABLES plan,    \* Seq([len, site])
          fault,   \* [at |-> k, kind |-> "other" | "zero" | "interrupted"] or None
          cap,     \* 0 or the maximal number of bytes the sink takes per call
          i,       \* index of the buffer being written
          rest,    \* bytes of that buffer still to write
          calls,   \* number of sink.write invocations so far
          bytes,   \* bytes accepted by the sink
          hit,     \* a non-retryable fault has been delivered
          result   \* "run" | "ok" | "err_io" | "panic"
vars == <<plan, fault, cap, i, rest, calls, bytes, hit, result>>

None == [none |-> TRUE]
Min(a, b) == IF a < b THEN a ELSE b

RECURSIVE Total(_)
Total(p) == IF p = <<>> THEN 0 ELSE Head(p).len + Total(Tail(p))

InitRest == /\ i = 1 /\ rest = (IF plan = <<>> THEN 0 ELSE plan[1].len)
            /\ calls = 0 /\ bytes = 0 /\ hit = FALSE
            /\ result = (IF plan = <<>> THEN "ok" ELSE "run")

Fail == IF plan[i].site = "unwrap" /\ "D26" \in Dev THEN "panic" ELSE "err_io"

Advance(a) == /\ bytes' = bytes + a
              /\ IF rest - a > 0
                 THEN rest' = rest - a /\ UNCHANGED <<i, result>>
                 ELSE IF i = Len(plan)
                      THEN rest' = 0 /\ result' = "ok" /\ UNCHANGED i
                      ELSE i' = i + 1 /\ rest' = plan[i + 1].len /\ UNCHANGED result

WriteCall == /\ result = "run"
             /\ calls' = calls + 1
             /\ IF fault # None /\ fault.at = calls + 1
                THEN IF fault.kind = "interrupted"
                     THEN UNCHANGED <<i, rest, bytes, hit, result>>          \* write_all retries
                     ELSE /\ result' = Fail /\ hit' = TRUE                   \* Ok(0) becomes WriteZero, Err(e) is returned
                          /\ UNCHANGED <<i, rest, bytes>>
                ELSE /\ Advance(IF cap = 0 THEN rest ELSE Min(rest, cap))
                     /\ UNCHANGED hit
             /\ UNCHANGED <<plan, fault, cap>>

Next == WriteCall
Fair == WF_vars(Next)

---------------------------------------------------------------------------
(* C15 *)
NeverPanic == result # "panic"
NoFalseSuccess == hit => result # "ok"
FaultReported == hit => result \in {"err_io"}
ShortWritesComplete == result = "ok" => bytes = Total(plan)
NothingAfterFault == hit => bytes <= Total(plan)
Terminates == <>(result # "run")

---------------------------------------------------------------------------
(* The same behaviour as a function of the sink policy, for judging whole runs in one step.         *)
(* lens = the buffer lengths of the unconstrained run, k = 1-based call index that fails.           *)
CallsFor(len, c) == IF c = 0 \/ len = 0 THEN 1 ELSE (len + c - 1) \div c
RECURSIVE TotalCalls(_, _)
TotalCalls(lens, c) == IF lens = <<>> THEN 0 ELSE CallsFor(Head(lens), c) + TotalCalls(Tail(lens), c)

Predict(lens, k, kind, c) ==
  LET n == TotalCalls(lens, c) IN
  IF k > n THEN [result |-> "ok", calls |-> n]
  ELSE IF kind = "interrupted" THEN [result |-> "ok", calls |-> n + 1]
  ELSE [result |-> "err_io", calls |-> k]

\* the state machine and the function agree (checked by TLC on every terminal state)
PredictAgrees ==
  (result # "run" /\ Dev = {}) =>
     LET lens == [j \in 1..Len(plan) |-> plan[j].len]
         p == IF fault = None THEN Predict(lens, 1000000, "other", cap) ELSE Predict(lens, fault.at, fault.kind, cap)
     IN p.result = result /\ p.calls = calls
=======================================================================
