--------------------------- MODULE Trace_C12 ---------------------------
(* Trace validation for C12: every generation of one input (registration orders, repeated calls on one   *)
(* object, threads, fresh processes) is a `gen` event carrying the outcome and the digest of the bytes.   *)
(* The observer of spec/Api.tla remembers the first one (`memo`) and every later one must equal it.       *)
EXTENDS Naturals, Sequences, FiniteSets, TLC, Json, IOUtils, TLCExt

CONSTANT Dev
Rec == ndJsonDeserialize(IOEnv.TRACE)
None == [none |-> TRUE]
VARIABLES l, cur, memo, n
tvars == <<l, cur, memo, n>>
TraceInit == l = 2 /\ cur = None /\ memo = None /\ n = 0 /\ TLCSet(1, 0) /\ TLCSet(2, 0) /\ TLCSet(3, 0)
ev == Rec[l]
IsEvent(k) == l <= Len(Rec) /\ ev.ev = k /\ l' = l + 1

TrCase == IsEvent("case") /\ cur' = ev /\ memo' = None /\ n' = 0
V(clause, subj, exp, got) == [prop |-> "C12", id |-> cur.id, clause |-> clause, subj |-> subj, exp |-> exp, got |-> got]

\* Generate of Api: enabled only if memo is unset or equals what this generation produced
TrGen == /\ IsEvent("gen")
         /\ LET d == [outcome |-> ev.outcome, digest |-> ev.digest] IN
            /\ memo' = IF memo = None THEN d ELSE memo
            /\ IF memo # None /\ memo # d
               THEN /\ IF "D05" \in Dev
                       THEN PrintT(<<"KNOWN", ToJson(V("same_output", ev.how, memo.digest, ev.digest) @@ [devs |-> {"D05"}])>>)
                       ELSE PrintT(<<"VIOL", ToJson(V("same_output", ev.how, memo.digest, ev.digest))>>) /\ TLCSet(2, TLCGet(2) + 1)
               ELSE TRUE
            /\ IF ev.outcome # "ok" /\ "label" \in DOMAIN cur.case /\ cur.case.drv = "c12"   \* the model's own inputs are inside the subset
               THEN PrintT(<<"VIOL", ToJson(V("generates", ev.how, "ok", ev.outcome))>>) /\ TLCSet(2, TLCGet(2) + 1)
               ELSE TRUE
         /\ n' = n + 1 /\ UNCHANGED cur

TrDone == /\ IsEvent("done")
          /\ IF n < 2 THEN PrintT(<<"VIOL", ToJson(V("has_generations", "n", ">=2", ToString(n)))>>) ELSE TRUE
          /\ TLCSet(1, TLCGet(1) + 1) /\ TLCSet(3, TLCGet(3) + n)
          /\ UNCHANGED <<cur, memo, n>>
TrOther == l <= Len(Rec) /\ ev.ev \notin {"case", "gen", "done"} /\ l' = l + 1 /\ UNCHANGED <<cur, memo, n>>
TraceNext == TrCase \/ TrGen \/ TrDone \/ TrOther
TraceSpec == TraceInit /\ [][TraceNext]_tvars
Accepted == /\ PrintT(<<"TALLY", TLCGet(1), TLCGet(2), TLCGet(3)>>)
            /\ IF TLCGet("stats").diameter = Len(Rec) THEN TRUE
               ELSE PrintT(<<"UNMATCHED", TLCGet("stats").diameter, Len(Rec)>>) /\ FALSE
=======================================================================
