--------------------------- MODULE Trace_C17 ---------------------------
(* Trace validation for C17: each `cli_run` event is one execution of the built zeep binary in a scratch         *)
(* directory (a scenario of spec/Cli.tla x a working directory).  The event carries what was observed: exit      *)
(* status class, state of the output file (absent / old bytes / empty / equal to the library's bytes / other),   *)
(* whether any other file appeared, and what the library itself does with the same files.                        *)
EXTENDS Cli, Json, IOUtils, TLCExt

Rec == ndJsonDeserialize(IOEnv.TRACE)
None == [none |-> TRUE]
VARIABLES l, cur
tvars == <<l, cur>>
TraceInit == l = 2 /\ cur = None /\ scn = [spelling |-> "abs", out |-> "default", pre |-> "absent", fail |-> "none"]
             /\ pc = <<>> /\ outf = "absent" /\ exit = "ok"
             /\ TLCSet(1, 0) /\ TLCSet(2, 0) /\ TLCSet(3, 0)
ev == Rec[l]
IsEvent(k) == l <= Len(Rec) /\ ev.ev = k /\ l' = l + 1
TrCase == IsEvent("case") /\ cur' = ev

V(clause, subj, exp, got) == [prop |-> "C17", id |-> cur.id, clause |-> clause, subj |-> subj, exp |-> exp, got |-> got]
NamedFailures == {"missing_input", "bad_xml", "unresolved_import", "unsupported_binding", "unsupported_binding_parts", "reachable_unreadable"}
OldOf(s) == IF s.pre = "absent" THEN "absent" ELSE "old"

\* the clauses of C17 on one observed run; lib = "ok" | "err" is what the library does with the same files
RunViol(s, r) ==
     \* the tool succeeds exactly when the library does and the output can be created
     {V("exit_iff_library", r.cwd, IF r.lib = "ok" /\ s.fail # "out_dir_missing" THEN "0" ELSE "non-zero", r.exit) :
         x \in {1} \cap (IF (r.exit = "ok") = (r.lib = "ok" /\ s.fail # "out_dir_missing") THEN {} ELSE {1})}
  \cup {V("same_bytes_as_library", r.cwd, "new", r.outf) : x \in {1} \cap (IF r.exit = "ok" /\ r.outf # "new" THEN {1} ELSE {})}
     \* the inputs the property names as failing (missing file, unreadable sibling, malformed XML, unresolved import,
     \* unsupported binding) must fail - whatever the library thinks of them - and leave the old output alone
  \cup {V("named_failure_fails", r.cwd \o "/" \o s.fail, "non-zero, old output kept", r.exit \o ", " \o r.outf) :
         x \in {1} \cap (IF s.fail \in NamedFailures /\ (r.exit = "ok" \/ r.outf # OldOf(s)) THEN {1} ELSE {})}
  \cup {V("failure_keeps_old_output", r.cwd, OldOf(s), r.outf) : x \in {1} \cap (IF r.exit # "ok" /\ r.outf # OldOf(s) THEN {1} ELSE {})}
  \cup {V("written_where_specified", r.cwd, "no other file", "stray file") : x \in {1} \cap (IF r.stray THEN {1} ELSE {})}
  \cup {V("no_crash", r.cwd, "exit", r.exit) : x \in {1} \cap (IF r.exit \in {"ok", "error"} THEN {} ELSE {1})}

PredViol(s, r) == LET o == Outcome(s, Dev) IN
  RunViol(s, [r EXCEPT !.exit = o.exit, !.outf = o.outf, !.stray = FALSE,
                       !.lib = IF s.fail = "none" THEN "ok" ELSE "err"])

TrRun == /\ IsEvent("cli_run")
         /\ LET s == [cur.case.scn EXCEPT !.fail = ev.effective_fail, !.pre = ev.effective_pre]   \* a missing output directory only exists for an explicit output elsewhere
                obs == RunViol(s, ev)
                pred == IF Dev = {} THEN {} ELSE PredViol(s, ev)
            IN /\ \A v \in obs \ pred : PrintT(<<"VIOL", ToJson(v)>>)
               /\ \A v \in obs \cap pred : PrintT(<<"KNOWN", ToJson(v @@ [devs |-> {d \in Dev : v \notin (LET o == Outcome(s, Dev \ {d}) IN RunViol(s, [ev EXCEPT !.exit = o.exit, !.outf = o.outf, !.stray = FALSE, !.lib = IF s.fail = "none" THEN "ok" ELSE "err"]))}])>>)
               /\ \A v \in pred \ obs : PrintT(<<"STALE", ToJson(v)>>)
               /\ TLCSet(2, TLCGet(2) + Cardinality(obs \ pred))
               \* step conformance with the model's Outcome
               /\ (Outcome(s, Dev).exit # ev.exit \/ Outcome(s, Dev).outf # ev.outf)
                     => PrintT(<<"DRIFT", ToJson([id |-> cur.id, cwd |-> ev.cwd])>>)
         /\ TLCSet(1, TLCGet(1) + 1)
         /\ UNCHANGED cur
TrOther == l <= Len(Rec) /\ ev.ev \notin {"case", "cli_run"} /\ l' = l + 1 /\ UNCHANGED cur
TraceNext == TrCase \/ TrRun \/ TrOther
TraceSpec == TraceInit /\ [][TraceNext /\ UNCHANGED vars]_<<tvars, vars>>
Accepted == /\ PrintT(<<"TALLY", TLCGet(1), TLCGet(2), TLCGet(3)>>)
            /\ IF TLCGet("stats").diameter = Len(Rec) THEN TRUE
               ELSE PrintT(<<"UNMATCHED", TLCGet("stats").diameter, Len(Rec)>>) /\ FALSE
=======================================================================
