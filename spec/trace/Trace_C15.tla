--------------------------- MODULE Trace_C15 ---------------------------
(* Trace validation for C15.  Per document: a `plan` event (buffer lengths of the unconstrained run) and *)
(* one `fault_run` event per injected fault, one `short_run` per short-write pattern.  TLC evaluates the *)
(* clauses of C15 on each observed run and compares the run with Sink!Predict (step conformance).        *)
EXTENDS Sink, Json, IOUtils, TLCExt

Rec == ndJsonDeserialize(IOEnv.TRACE)
VARIABLES l, cur
tvars == <<l, cur>>

TraceInit == l = 1 /\ cur = None /\ plan = <<>> /\ fault = None /\ cap = 0 /\ InitRest /\ TLCSet(1, 0) /\ TLCSet(2, 0) /\ TLCSet(3, 0)
ev == Rec[l]
IsEvent(k) == l <= Len(Rec) /\ ev.ev = k /\ l' = l + 1

TrCase == IsEvent("case") /\ cur' = [id |-> ev.id, lens |-> <<>>, n |-> 0, bytes |-> 0, has |-> FALSE]
\* big documents give only the number of calls (lens empty)
TrPlan == IsEvent("plan") /\ cur' = [cur EXCEPT !.lens = ev.lens, !.n = ev.calls, !.bytes = ev.bytes, !.has = TRUE]

V(clause, subj, exp, got) == [prop |-> "C15", id |-> cur.id, clause |-> clause, subj |-> subj, exp |-> exp, got |-> got]
Report(S) == \A v \in S : PrintT(<<"VIOL", ToJson(v)>>)

\* ev: [k (1-based), kind, result, calls, bytes]
FaultViol ==
  LET reached == ev.k <= cur.n
      subj == ToString(ev.k) \o "/" \o ev.kind \o "/" \o ev.errkind IN
     {V("never_panic", subj, "no panic", "panic") : x \in {1} \cap (IF ev.result = "panic" THEN {1} ELSE {})}
  \cup {V("fault_reported", subj, "err_io", ev.result) :
          x \in {1} \cap (IF reached /\ ev.kind # "interrupted" /\ ev.result \notin {"err_io", "panic"} THEN {1} ELSE {})}
  \cup {V("interrupted_retried", subj, "ok, same bytes", ev.result) :
          x \in {1} \cap (IF reached /\ ev.kind = "interrupted" /\ ~(ev.result = "ok" /\ ev.same) THEN {1} ELSE {})}
  \cup {V("no_fault_ok", subj, "ok, same bytes", ev.result) :
          x \in {1} \cap (IF ~reached /\ ~(ev.result = "ok" /\ ev.same) THEN {1} ELSE {})}

FaultDrift ==
  cur.lens # <<>> /\
  LET p == Predict(cur.lens, ev.k, ev.kind, 0) IN ev.result # "panic" /\ (p.result # ev.result \/ p.calls # ev.calls)

TrFault == /\ IsEvent("fault_run")
           /\ Report(FaultViol)
           /\ FaultDrift => PrintT(<<"DRIFT", ToJson([id |-> cur.id, k |-> ev.k, kind |-> ev.kind])>>)
           /\ TLCSet(1, TLCGet(1) + 1) /\ TLCSet(2, TLCGet(2) + Cardinality(FaultViol))
           /\ UNCHANGED cur

ShortViol ==
     {V("short_writes_complete", ev.pattern, "ok, byte-identical", ev.result) :
          x \in {1} \cap (IF ev.result = "ok" /\ ev.same THEN {} ELSE {1})}
TrShort == /\ IsEvent("short_run")
           /\ Report(ShortViol)
           /\ TLCSet(1, TLCGet(1) + 1) /\ TLCSet(2, TLCGet(2) + Cardinality(ShortViol))
           /\ UNCHANGED cur

BaseViol == {V("unconstrained_ok", "plan", "ok", ev.result) : x \in {1} \cap (IF ev.result = "ok" THEN {} ELSE {1})}
TrBase == IsEvent("base_run") /\ Report(BaseViol) /\ UNCHANGED cur

TrOther == l <= Len(Rec) /\ ev.ev \notin {"case", "plan", "fault_run", "short_run", "base_run"} /\ l' = l + 1 /\ UNCHANGED cur

TraceNext == TrCase \/ TrPlan \/ TrFault \/ TrShort \/ TrBase \/ TrOther
TraceSpec == TraceInit /\ [][TraceNext /\ UNCHANGED vars]_<<tvars, vars>>

Accepted == /\ PrintT(<<"TALLY", TLCGet(1), TLCGet(2), TLCGet(3)>>)
            /\ IF TLCGet("stats").diameter - 1 = Len(Rec) THEN TRUE
               ELSE PrintT(<<"UNMATCHED", TLCGet("stats").diameter, Len(Rec)>>) /\ FALSE
=======================================================================
