--------------------------- MODULE Trace_C11 ---------------------------
(* Trace validation for C11 (and the call-history clause of C12):         *)
(* every recorded event is (a) matched against the Imports action it      *)
(* claims to be - a mismatch clears `conf` (reported as DRIFT, no alarm) - *)
(* and (b) folded into the observed state `obs`, on which the clauses of  *)
(* the property are evaluated when the case ends.                         *)
EXTENDS Imports, Json, IOUtils, TLCExt

Rec == ndJsonDeserialize(IOEnv.TRACE)

VARIABLES l,     \* position in Rec
          cur,   \* the current case record
          conf,  \* TRUE while every event so far was a step the model allows
          pend,  \* an ImportRecurse was taken and its enter_file is still due
          obs    \* observed state

tvars == <<l, cur, conf, pend, obs>>

ObsInit == [reads |-> Zero, stack |-> <<>>, reentry |-> FALSE, rets |-> <<>>, outs |-> <<>>, sibs |-> <<>>]

TraceInit == /\ l = 1 /\ cur = None /\ conf = TRUE /\ pend = FALSE /\ obs = ObsInit
             /\ g = [f \in File |-> <<>>] /\ start = CHOOSE f \in File : TRUE
             /\ InitRest
             /\ TLCSet(1, 0) /\ TLCSet(2, 0) /\ TLCSet(3, 0)

ev == Rec[l]
IsEvent(k) == l <= Len(Rec) /\ ev.ev = k /\ l' = l + 1
Drift == conf' = FALSE /\ UNCHANGED vars
Keep == conf' = conf /\ UNCHANGED vars
\* take model action A if its guard G holds, else record drift; once drifted the model is frozen
Try(G, A) == IF ~conf THEN Keep ELSE IF G THEN A /\ conf' = conf ELSE Drift

TrCase == /\ IsEvent("case")
          /\ cur' = ev.case
          /\ g' = [f \in File |-> IF f \in DOMAIN ev.case.g THEN ev.case.g[f] ELSE <<>>]
          /\ start' = ev.case.start
          /\ processed' = AllFalse /\ stack' = <<>> /\ reads' = Zero
          /\ pc' = "idle" /\ result' = "none" /\ calls' = 0 /\ doc' = <<>> /\ first' = None
          /\ conf' = TRUE /\ pend' = FALSE /\ obs' = ObsInit

TrCall == /\ IsEvent("call")
          /\ Try(pc \in {"idle", "done"} /\ calls < MaxCalls, Call)
          /\ obs' = [obs EXCEPT !.reads = Zero, !.stack = <<>>, !.reentry = FALSE]
          /\ UNCHANGED <<cur, pend>>

TrEnter == /\ IsEvent("enter_file")
           /\ LET f == ev.file IN
              /\ IF pend
                 THEN Try(pc = "run" /\ stack # <<>> /\ Top.f = f, UNCHANGED vars)
                 ELSE Try(pc = "call" /\ f = start /\ ~processed[start], EnterStart)
              /\ obs' = [obs EXCEPT !.reads = IF f \in File THEN [@ EXCEPT ![f] = @ + 1] ELSE @,
                                    !.reentry = @ \/ (\E i \in 1..Len(obs.stack) : obs.stack[i] = f),
                                    !.stack = Append(@, f)]
           /\ pend' = FALSE /\ UNCHANGED cur

TrSkip == /\ IsEvent("skip_processed")
          /\ Try(pc = "call" /\ processed[start] /\ ev.file = start, SkipProcessed)
          /\ UNCHANGED <<cur, pend, obs>>

TrLeave == /\ IsEvent("leave_file")
           /\ IF ev.ok
              THEN Try(pc = "run" /\ ~HasDup /\ stack # <<>> /\ Top.todo = <<>> /\ Top.f = ev.file, Leave)
              ELSE Keep    \* unwinding after an error: the model has already finished the call
           /\ obs' = [obs EXCEPT !.stack = IF @ = <<>> THEN @ ELSE SubSeq(@, 1, Len(@) - 1)]
           /\ UNCHANGED <<cur, pend>>

CanImp == pc = "run" /\ ~HasDup /\ stack # <<>> /\ Top.todo # <<>>
TrImport == /\ IsEvent("import")
            /\ LET o == ev.outcome IN
               CASE o = "well_known" -> Try(CanImp /\ Head(Top.todo) = "wk", ImportSkip("wk")) /\ pend' = pend
                 [] o = "no_location" -> Try(CanImp /\ Head(Top.todo) = "noloc", ImportSkip("noloc")) /\ pend' = pend
                 [] o = "processed" -> Try(CanImp /\ Head(Top.todo) = ev.loc /\ ev.loc \in File /\ processed[ev.loc],
                                           ImportSkip("processed")) /\ pend' = pend
                 [] o = "recurse" -> Try(CanImp /\ Head(Top.todo) = ev.loc /\ ev.loc \in File /\ ~processed[ev.loc],
                                         ImportRecurse(ev.loc)) /\ pend' = TRUE
                 [] o = "not_found" -> Try(CanImp /\ Head(Top.todo) = "missing", ImportMissing) /\ pend' = pend
                 [] OTHER -> Drift /\ pend' = pend
            /\ UNCHANGED <<cur, obs>>

ResultOf(o) == CASE o = "doc" -> "doc" [] o = "err" -> "err" [] OTHER -> "overflow"
TrRet == /\ IsEvent("ret")
         /\ IF ev.outcome \in {"doc", "err"}
            THEN Try(pc = "done" /\ result = ResultOf(ev.outcome), UNCHANGED vars)
            ELSE Keep   \* crash / panic / timeout: hook events are lost with the process, nothing to match
         /\ obs' = [obs EXCEPT !.rets = Append(@, [n |-> ev.n, outcome |-> ev.outcome,
                                                   reads |-> obs.reads, reentry |-> obs.reentry])]
         /\ UNCHANGED <<cur, pend>>

StructNames(out) ==
  LET modItems == [i \in 1..Len(out.mods) |-> out.mods[i].items]
      names(items) == {items[j].name : j \in {j \in 1..Len(items) : items[j].k = "struct"}}
      cnt(items, nm) == Cardinality({j \in 1..Len(items) : items[j].k = "struct" /\ items[j].name = nm})
  IN [mods |-> modItems, root |-> out.root]

\* number of structs called nm anywhere in the abstracted output
CountStruct(out, nm) ==
  LET c(items) == Cardinality({j \in 1..Len(items) : items[j].k = "struct" /\ items[j].name = nm})
      RECURSIVE Sum(_)
      Sum(i) == IF i = 0 THEN 0 ELSE c(out.mods[i].items) + Sum(i - 1)
  IN Sum(Len(out.mods)) + c(out.root)

TrWritten == /\ IsEvent("written")
             /\ obs' = [obs EXCEPT !.outs = Append(@, ev)]
             /\ Keep /\ UNCHANGED <<cur, pend>>

TrSibling == /\ IsEvent("sibling")
             /\ obs' = [obs EXCEPT !.sibs = Append(@, ev)]
             /\ Keep /\ UNCHANGED <<cur, pend>>

---------------------------------------------------------------------------
(* The clauses of C11, evaluated on the observed behaviour of one case.    *)
(* g and start still hold the case's import graph, so Reach and Dangling   *)
(* are the declarative definitions of Imports.                             *)

V(clause, subj, exp, got) == [prop |-> "C11", id |-> cur.id, clause |-> clause, subj |-> subj, exp |-> exp, got |-> got]
B(b) == IF b THEN "1" ELSE "0"

ViolRet(r) ==
     {V("terminates", ToString(r.n), "doc|err", r.outcome) : x \in {1} \cap (IF r.outcome \in {"doc", "err"} THEN {} ELSE {1})}
  \cup {V("no_reentry", ToString(r.n), "0", "1") : x \in {1} \cap (IF r.reentry THEN {1} ELSE {})}
  \cup {V("outcome", ToString(r.n), IF Dangling THEN "err" ELSE "doc", r.outcome) :
          x \in {1} \cap (IF r.outcome \in {"doc", "err"} /\ r.outcome # (IF Dangling THEN "err" ELSE "doc") THEN {1} ELSE {})}
  \cup {V("once", f, B(f \in Reach), ToString(r.reads[f])) :
          f \in {f \in File : r.outcome = "doc" /\ ~Dangling /\ r.reads[f] # (IF f \in Reach THEN 1 ELSE 0)}}
  \cup {V("no_unreachable", f, "0", ToString(r.reads[f])) : f \in {f \in File : f \notin Reach /\ r.reads[f] # 0}}

ViolOut(w) ==
  IF "out" \notin DOMAIN w THEN {} ELSE
     {V("written_ok", ToString(w.n), "ok", w.outcome) : x \in {1} \cap (IF w.outcome = "ok" THEN {} ELSE {1})}
  \cup {V("parses", ToString(w.n), "1", "0") : x \in {1} \cap (IF w.out.parses THEN {} ELSE {1})}
  \cup {V("complete", cur.types[f], B(f \in Reach), ToString(CountStruct(w.out, cur.types[f]))) :
          f \in {f \in DOMAIN cur.types : w.out.parses /\ ~Dangling
                   /\ CountStruct(w.out, cur.types[f]) # (IF f \in Reach THEN 1 ELSE 0)}}

ViolSib(s) ==
     {V("sibling_irrelevant", s.kind, "same output", "different output or outcome") :
          x \in {1} \cap (IF s.same /\ s.read = s.base_read THEN {} ELSE {1})}

Viol == UNION {ViolRet(obs.rets[i]) : i \in 1..Len(obs.rets)}
        \cup UNION {ViolOut(obs.outs[i]) : i \in 1..Len(obs.outs)}
        \cup UNION {ViolSib(obs.sibs[i]) : i \in 1..Len(obs.sibs)}
        \cup {V("has_return", "1", "ret", "none") : x \in {1} \cap (IF obs.rets = <<>> THEN {1} ELSE {})}

\* what the model predicts under the listed deviations: the types it drops (first call)
Pred == IF first = None \/ first.result # "doc" \/ Dangling THEN {}
        ELSE {V("complete", cur.types[f], "1", "0") : f \in {f \in Reach : f \in DOMAIN cur.types /\ Count(first.doc, f) = 0}}
TrDone == /\ IsEvent("done")
          /\ \A v \in Viol \ Pred : PrintT(<<"VIOL", ToJson(v)>>)
          /\ \A v \in Viol \cap Pred : PrintT(<<"KNOWN", ToJson(v @@ [devs |-> Dev \cap {"D28", "D28b"}])>>)
          /\ \A v \in Pred \ Viol : PrintT(<<"STALE", ToJson(v)>>)
          /\ (~conf) => PrintT(<<"DRIFT", ToJson([id |-> cur.id, at |-> l])>>)
          /\ TLCSet(1, TLCGet(1) + 1)
          /\ TLCSet(2, TLCGet(2) + Cardinality(Viol \ Pred))
          /\ TLCSet(3, TLCGet(3) + (IF conf THEN 0 ELSE 1))
          /\ Keep /\ UNCHANGED <<cur, pend, obs>>

Known == {"case", "call", "enter_file", "skip_processed", "leave_file", "import", "ret", "written", "sibling", "done"}
TrOther == /\ l <= Len(Rec) /\ ev.ev \notin Known /\ l' = l + 1
           /\ Keep /\ UNCHANGED <<cur, pend, obs>>

TraceNext == TrCase \/ TrCall \/ TrEnter \/ TrSkip \/ TrLeave \/ TrImport \/ TrRet
             \/ TrWritten \/ TrSibling \/ TrDone \/ TrOther

TraceSpec == TraceInit /\ [][TraceNext]_<<vars, tvars>>

Accepted == /\ PrintT(<<"TALLY", TLCGet(1), TLCGet(2), TLCGet(3)>>)
            /\ IF TLCGet("stats").diameter - 1 = Len(Rec) THEN TRUE
               ELSE PrintT(<<"UNMATCHED", TLCGet("stats").diameter, Len(Rec)>>) /\ FALSE
=======================================================================
