--------------------------- MODULE Trace_C19 ---------------------------
(* Trace validation for C19: per probe case the harness reports, for the bare and for the wrapped value of the   *)
(* same shape, what each channel of spec/MultiRef.tla shows (serialised text at the root and as a field,         *)
(* deserialised Debug text, restriction result, Default, pointer sharing of clones).  TLC requires equality.    *)
EXTENDS Naturals, Sequences, FiniteSets, TLC, Json, IOUtils, TLCExt
CONSTANT NotForwarded
Rec == ndJsonDeserialize(IOEnv.TRACE)
None == [none |-> TRUE]
VARIABLES l, cur
tvars == <<l, cur>>
TraceInit == l = 2 /\ cur = None /\ TLCSet(1, 0) /\ TLCSet(2, 0) /\ TLCSet(3, 0)
ev == Rec[l]
IsEvent(k) == l <= Len(Rec) /\ ev.ev = k /\ l' = l + 1
TrCase == IsEvent("case") /\ cur' = ev
V(clause, exp, got) == [prop |-> "C19", id |-> cur.id, clause |-> clause, subj |-> cur.case.shape.probe, exp |-> exp, got |-> got]
\* one observation: channel, bare, wrapped
TrObs == /\ IsEvent("obs")
         /\ TLCSet(3, TLCGet(3) + 1)
         /\ IF ev.bare # ev.wrapped
            THEN PrintT(<<"VIOL", ToJson(V(ev.channel, ev.bare, ev.wrapped))>>) /\ TLCSet(2, TLCGet(2) + 1)
            ELSE TRUE
         /\ UNCHANGED cur
TrDone == IsEvent("done") /\ TLCSet(1, TLCGet(1) + 1) /\ UNCHANGED cur
TrOther == l <= Len(Rec) /\ ev.ev \notin {"case", "obs", "done"} /\ l' = l + 1 /\ UNCHANGED cur
TraceNext == TrCase \/ TrObs \/ TrDone \/ TrOther
TraceSpec == TraceInit /\ [][TraceNext]_tvars
Accepted == /\ PrintT(<<"TALLY", TLCGet(1), TLCGet(2), TLCGet(3)>>)
            /\ IF TLCGet("stats").diameter = Len(Rec) THEN TRUE
               ELSE PrintT(<<"UNMATCHED", TLCGet("stats").diameter, Len(Rec)>>) /\ FALSE
=======================================================================
