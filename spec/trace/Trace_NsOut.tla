--------------------------- MODULE Trace_NsOut ---------------------------
(* C10 on the files generated for the schema sets and WSDLs of MC_CR (the compile/run pipeline's generations): every     *)
(* prefix that a struct of the emitted file uses - for itself or for a member, request and response envelopes and their  *)
(* Body / Header structs included - is declared on that struct, and over the whole file one prefix stands for one        *)
(* namespace and one namespace has one prefix.  (The module-level clauses of C10 need the registry model's prediction   *)
(* and stay with Trace_C10; these are the declaration clauses, evaluated on the abstracted output alone.)                *)
EXTENDS Naturals, Sequences, FiniteSets, TLC, Json, IOUtils, TLCExt
Rec == ndJsonDeserialize(IOEnv.TRACE)
None == [none |-> TRUE]
VARIABLES l, cur
tvars == <<l, cur>>
TraceInit == l = 2 /\ cur = None /\ TLCSet(1, 0) /\ TLCSet(2, 0) /\ TLCSet(3, 0)
ev == Rec[l]
IsEvent(k) == l <= Len(Rec) /\ ev.ev = k /\ l' = l + 1
NsBinding(pairs, p) == IF \E i \in 1..Len(pairs) : pairs[i][1] = p
                       THEN pairs[CHOOSE i \in 1..Len(pairs) : pairs[i][1] = p][2] ELSE "unbound"
OwnNs(s) == IF "prefix" \in DOMAIN s.y /\ "namespaces" \in DOMAIN s.y THEN NsBinding(s.y.namespaces, s.y.prefix) ELSE "none"
StructsOfMod(m) == {m.items[j] : j \in {j \in 1..Len(m.items) : m.items[j].k = "struct"}}
RootStructs(out) == {out.root[j] : j \in {j \in 1..Len(out.root) : out.root[j].k = "struct"}}
AllStructs(out) == UNION {StructsOfMod(out.mods[i]) : i \in 1..Len(out.mods)} \cup RootStructs(out)
Decls(out) == UNION {IF "namespaces" \in DOMAIN s.y THEN {<<s.y.namespaces[i][1], s.y.namespaces[i][2]>> : i \in 1..Len(s.y.namespaces)} ELSE {} : s \in AllStructs(out)}
V(clause, subj, exp, got) == [prop |-> "C10", id |-> cur.id, label |-> cur.case.label, clause |-> clause, subj |-> subj, exp |-> exp, got |-> got]
NsViol(out) ==
     {V("prefix_one_namespace", d[1], "1 uri", "several") : d \in {d \in Decls(out) : \E e \in Decls(out) : e[1] = d[1] /\ e[2] # d[2]}}
  \cup {V("namespace_one_prefix", d[2], "1 prefix", "several") : d \in {d \in Decls(out) : \E e \in Decls(out) : e[2] = d[2] /\ e[1] # d[1]}}
  \cup {V("struct_prefix_declared", s.name, "bound", "unbound") : s \in {s \in AllStructs(out) : OwnNs(s) = "unbound"}}
  \cup {V("field_prefix_declared", s.name, "bound", "unbound") :
         s \in {s \in AllStructs(out) : \E i \in 1..Len(s.fields) : "prefix" \in DOMAIN s.fields[i].y
                    /\ ("namespaces" \notin DOMAIN s.y \/ NsBinding(s.y.namespaces, s.fields[i].y.prefix) = "unbound")}}
TrCase == IsEvent("case") /\ cur' = ev
TrWritten == /\ IsEvent("written")
             /\ IF cur # None /\ "out" \in DOMAIN ev /\ "mods" \in DOMAIN ev.out
                THEN /\ \A v \in NsViol(ev.out) : PrintT(<<"VIOL", ToJson(v)>>) /\ TLCSet(2, TLCGet(2) + 1)
                     /\ TLCSet(3, TLCGet(3) + Cardinality(AllStructs(ev.out)))
                ELSE TRUE
             /\ UNCHANGED cur
TrDone == IsEvent("done") /\ TLCSet(1, TLCGet(1) + 1) /\ UNCHANGED cur
TrOther == l <= Len(Rec) /\ ev.ev \notin {"case", "written", "done"} /\ l' = l + 1 /\ UNCHANGED cur
TraceNext == TrCase \/ TrWritten \/ TrDone \/ TrOther
TraceSpec == TraceInit /\ [][TraceNext]_tvars
Accepted == /\ PrintT(<<"TALLY", TLCGet(1), TLCGet(2), TLCGet(3)>>)
            /\ IF TLCGet("stats").diameter = Len(Rec) THEN TRUE
               ELSE PrintT(<<"UNMATCHED", TLCGet("stats").diameter, Len(Rec)>>) /\ FALSE
=======================================================================
