--------------------------- MODULE Trace_C13 ---------------------------
(* Trace validation for C13: each case is one run of the outcome protocol of spec/Robust.tla in an isolated   *)
(* worker.  Events: case (features of the input), mutated, ret (read outcome), written (write outcome),       *)
(* elapsed, done.  A run that leaves {doc, err} x {ok, err}, or needs longer than the bound for its size, is   *)
(* a violation unless a listed deviation explains exactly that outcome for a feature the input has.           *)
EXTENDS Robust, Json, IOUtils, TLCExt, Sequences

Rec == ndJsonDeserialize(IOEnv.TRACE)
None == [none |-> TRUE]
VARIABLES l, cur, obs
tvars == <<l, cur, obs>>
TraceInit == l = 2 /\ cur = None /\ obs = [rd |-> "none", wr |-> "none", ms |-> 0, bytes |-> 0, applied |-> TRUE]
             /\ feat = {} /\ pc = "idle" /\ rd = "none" /\ wr = "none"
             /\ TLCSet(1, 0) /\ TLCSet(2, 0) /\ TLCSet(3, 0)
ev == Rec[l]
IsEvent(k) == l <= Len(Rec) /\ ev.ev = k /\ l' = l + 1
AsSet(s) == {s[i] : i \in 1..Len(s)}

TrCase == IsEvent("case") /\ cur' = ev /\ obs' = [rd |-> "none", wr |-> "none", ms |-> 0, bytes |-> 0, applied |-> TRUE]
TrMut == IsEvent("mutated") /\ obs' = [obs EXCEPT !.applied = ev.applied, !.bytes = ev.bytes] /\ UNCHANGED cur
\* the error variant of a classified malformed input (Robust!ErrorOf): a different variant is drift, not a violation
TrRet == /\ IsEvent("ret") /\ obs' = [obs EXCEPT !.rd = ev.outcome] /\ UNCHANGED cur
         /\ ("expect_err" \in DOMAIN cur.case /\ ~(ev.outcome = "err" /\ ev.err = cur.case.expect_err))
               => PrintT(<<"DRIFT", ToJson([id |-> cur.id, what |-> "error variant of " \o cur.case.label, exp |-> cur.case.expect_err,
                                            got |-> IF ev.outcome = "err" THEN ev.err ELSE ev.outcome])>>)
TrWritten == IsEvent("written") /\ obs' = [obs EXCEPT !.wr = ev.outcome] /\ UNCHANGED cur
TrElapsed == IsEvent("elapsed") /\ obs' = [obs EXCEPT !.ms = ev.ms] /\ UNCHANGED cur

\* generous bound: 2 s + 1 ms per input byte
Bound(bytes) == 2000 + bytes
V(clause, exp, got) == [prop |-> "C13", id |-> cur.id, clause |-> clause, subj |-> cur.case.label, exp |-> exp, got |-> got]
CaseFeat == IF "feat" \in DOMAIN cur.case THEN AsSet(cur.case.feat) ELSE {}
Explained(outcome) == {f \in CaseFeat : f \in Features /\ Explains(f, outcome)}

Viol ==
     {V("read_returns", "doc|err", obs.rd) : x \in {1} \cap (IF obs.rd \in {"doc", "err"} THEN {} ELSE {1})}
  \cup {V("write_returns", "ok|err", obs.wr) : x \in {1} \cap (IF obs.rd # "doc" \/ obs.wr \in {"ok", "err"} THEN {} ELSE {1})}
  \cup {V("time_bound", ToString(Bound(obs.bytes)), ToString(obs.ms)) : x \in {1} \cap (IF obs.ms <= Bound(obs.bytes) THEN {} ELSE {1})}

TrDone ==
  /\ IsEvent("done")
  /\ \A v \in Viol :
        LET why == Explained(v.got) \cup (IF v.clause = "time_bound" THEN Explained("timeout") ELSE {}) IN
        IF why # {} THEN PrintT(<<"KNOWN", ToJson(v @@ [devs |-> {Site[f] : f \in why}])>>)
        ELSE PrintT(<<"VIOL", ToJson(v)>>) /\ TLCSet(2, TLCGet(2) + 1)
  /\ TLCSet(1, TLCGet(1) + 1) /\ TLCSet(3, TLCGet(3) + (IF obs.applied THEN 1 ELSE 0))
  /\ UNCHANGED <<cur, obs>>
TrOther == l <= Len(Rec) /\ ev.ev \notin {"case", "mutated", "ret", "written", "elapsed", "done"} /\ l' = l + 1 /\ UNCHANGED <<cur, obs>>
TraceNext == TrCase \/ TrMut \/ TrRet \/ TrWritten \/ TrElapsed \/ TrDone \/ TrOther
TraceSpec == TraceInit /\ [][TraceNext /\ UNCHANGED vars]_<<tvars, vars>>
Accepted == /\ PrintT(<<"TALLY", TLCGet(1), TLCGet(2), TLCGet(3)>>)
            /\ IF TLCGet("stats").diameter = Len(Rec) THEN TRUE
               ELSE PrintT(<<"UNMATCHED", TLCGet("stats").diameter, Len(Rec)>>) /\ FALSE
=======================================================================
