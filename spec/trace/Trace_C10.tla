--------------------------- MODULE Trace_C10 ---------------------------
(* Trace validation for C10.  The clauses are evaluated on the abstracted emitted file alone (modules,   *)
(* struct-level prefix/namespaces attributes, field prefixes); the same clauses evaluated on the output  *)
(* the Registry model predicts under the listed deviations (carried in the case as `pred`) give Pred.    *)
(* The hook events ns_ref / switch_tns / merge are checked for internal consistency (an abbreviation     *)
(* handed out twice for different URIs inside one document is reported as drift).                        *)
EXTENDS Registry, Writer, Json, IOUtils, TLCExt

CONSTANTS Dev
Rec == ndJsonDeserialize(IOEnv.TRACE)
Voc == Rec[1].vocab
UriStr(id) == IF "uris" \in DOMAIN Voc /\ id \in DOMAIN Voc.uris THEN Voc.uris[id].uri ELSE id
NameXml(id) == IF "names" \in DOMAIN Voc /\ id \in DOMAIN Voc.names THEN Voc.names[id].xml ELSE id

VARIABLES l, cur, rd, reg,   \* reg: set of <<abbr, uri>> seen in ns_ref/switch_tns events of the current case
          docs,              \* the model's documents, one per file being read (a stack), stepped by the hook events
          ret,               \* the document returned by the file that was left last (waiting to be merged)
          conf,              \* TRUE while every registry event so far is the step the Registry model takes
          nodes, retn,       \* per file being read: the components pushed so far (a stack); those of the file left last
          wconf              \* TRUE while every emit event is the step spec/Writer.tla takes
tvars == <<l, cur, rd, reg, docs, ret, conf, nodes, retn, wconf>>
WriterIdle == /\ phase = "idle" /\ mods = <<>> /\ open = <<>> /\ roots = <<>> /\ bindings = <<>> /\ services = <<>> /\ emitted = <<>>
TraceInit == l = 2 /\ cur = None /\ rd = "none" /\ reg = {} /\ docs = <<>> /\ ret = EmptyDoc /\ conf = TRUE
             /\ nodes = <<>> /\ retn = <<>> /\ wconf = TRUE /\ WriterIdle
             /\ TLCSet(1, 0) /\ TLCSet(2, 0) /\ TLCSet(3, 0)
WVars == <<phase, mods, open, roots, bindings, services, emitted>>
WellKnown == {"http://www.w3.org/XML/1998/namespace", "http://www.w3.org/2001/XMLSchema", "http://www.w3.org/2001/XMLSchema-instance",
              "http://www.w3.org/2007/XMLSchema-versioning"}
\* abbreviation base of a URI string, from the vocabulary (unknown URIs: the step cannot be predicted)
BaseOfUri(u) == IF \E id \in DOMAIN Voc.uris : Voc.uris[id].uri = u /\ "base" \in DOMAIN Voc.uris[id]
                THEN Voc.uris[CHOOSE id \in DOMAIN Voc.uris : Voc.uris[id].uri = u /\ "base" \in DOMAIN Voc.uris[id]].base ELSE "?"
TopDoc == docs[Len(docs)]
SetTop(d) == [docs EXCEPT ![Len(docs)] = d]
ev == Rec[l]
IsEvent(k) == l <= Len(Rec) /\ ev.ev = k /\ l' = l + 1

NsBinding(pairs, p) == IF \E i \in 1..Len(pairs) : pairs[i][1] = p
                       THEN pairs[CHOOSE i \in 1..Len(pairs) : pairs[i][1] = p][2] ELSE "unbound"
OwnNs(s) == IF "prefix" \in DOMAIN s.y /\ "namespaces" \in DOMAIN s.y THEN NsBinding(s.y.namespaces, s.y.prefix) ELSE "none"
RenameOf(s) == IF "rename" \in DOMAIN s.y THEN s.y.rename ELSE s.name
StructsOfMod(m) == {m.items[j] : j \in {j \in 1..Len(m.items) : m.items[j].k = "struct"}}
RootStructs(out) == {out.root[j] : j \in {j \in 1..Len(out.root) : out.root[j].k = "struct"}}
AllStructs(out) == UNION {StructsOfMod(out.mods[i]) : i \in 1..Len(out.mods)} \cup RootStructs(out)
Decls(out) == UNION {IF "namespaces" \in DOMAIN s.y THEN {<<s.y.namespaces[i][1], s.y.namespaces[i][2]>> : i \in 1..Len(s.y.namespaces)} ELSE {} : s \in AllStructs(out)}
ModsWith(out, u) == {i \in 1..Len(out.mods) : \E s \in StructsOfMod(out.mods[i]) : OwnNs(s) = u}
Uris(out) == {OwnNs(s) : s \in AllStructs(out)} \ {"none"}

V(clause, subj, exp, got) == [clause |-> clause, subj |-> subj, exp |-> exp, got |-> got]

\* the namespace clauses, on any abstract output (observed or predicted)
NsViol(out, types) ==
     {V("module_unique_name", out.mods[i].name, "1", "2+") :
         i \in {i \in 1..Len(out.mods) : \E j \in 1..Len(out.mods) : j # i /\ out.mods[j].name = out.mods[i].name}}
  \cup {V("module_one_namespace", out.mods[i].name, "1", ToString(Cardinality({OwnNs(s) : s \in StructsOfMod(out.mods[i])}))) :
         i \in {i \in 1..Len(out.mods) : Cardinality({OwnNs(s) : s \in StructsOfMod(out.mods[i])}) > 1}}
  \cup {V("namespace_one_module", u, "1", ToString(Cardinality({out.mods[i].name : i \in ModsWith(out, u)}))) :
         u \in {u \in Uris(out) : Cardinality({out.mods[i].name : i \in ModsWith(out, u)}) # 1 \/ Cardinality(ModsWith(out, u)) # 1}}
  \cup {V("prefix_one_namespace", d[1], "1 uri", "several") :
         d \in {d \in Decls(out) : \E e \in Decls(out) : e[1] = d[1] /\ e[2] # d[2]}}
  \cup {V("namespace_one_prefix", d[2], "1 prefix", "several") :
         d \in {d \in Decls(out) : \E e \in Decls(out) : e[2] = d[2] /\ e[1] # d[1]}}
  \cup {V("struct_prefix_declared", s.name, "bound", "unbound") : s \in {s \in AllStructs(out) : OwnNs(s) = "unbound"}}
  \cup {V("field_prefix_declared", s.name, "bound", "unbound") :
         s \in {s \in AllStructs(out) : \E i \in 1..Len(s.fields) : "prefix" \in DOMAIN s.fields[i].y
                    /\ ("namespaces" \notin DOMAIN s.y \/ NsBinding(s.y.namespaces, s.fields[i].y.prefix) = "unbound")}}
  \cup {V("component_in_its_module", NameXml(types[t].n), "1", ToString(Cardinality({s \in AllStructs(out) : OwnNs(s) = UriStr(types[t].ns) /\ RenameOf(s) = NameXml(types[t].n)}))) :
         t \in {t \in 1..Len(types) : Cardinality({s \in AllStructs(out) : OwnNs(s) = UriStr(types[t].ns) /\ RenameOf(s) = NameXml(types[t].n)}) # 1}}

Inst(v) == [prop |-> "C10", id |-> cur.id] @@ v

TrCase == /\ IsEvent("case") /\ cur' = ev /\ rd' = "none" /\ reg' = {} /\ docs' = <<>> /\ ret' = EmptyDoc /\ conf' = TRUE
          /\ nodes' = <<>> /\ retn' = <<>> /\ wconf' = TRUE
          /\ phase' = "idle" /\ mods' = <<>> /\ open' = <<>> /\ roots' = <<>> /\ bindings' = <<>> /\ services' = <<>> /\ emitted' = <<>>
\* when read_xml has returned, the document is known: the writer's work list follows from it
NamesIn(ns) == SelectSeq(retn, LAMBDA x : x.ns = ns)
TrRet == /\ IsEvent("ret") /\ rd' = ev.outcome
         /\ phase' = "start"
         /\ mods' = [k \in 1..Len(ret.tns) |-> [name |-> "mod_" \o Label(ret.tns[k]),
                                                 nodes |-> [i \in 1..Len(NamesIn(UriStr(ret.tns[k].uri))) |-> NamesIn(UriStr(ret.tns[k].uri))[i].name]]]
         /\ roots' = [i \in 1..Len(NamesIn("null")) |-> NamesIn("null")[i].name]
         /\ open' = <<>> /\ bindings' = <<>> /\ services' = <<>> /\ emitted' = <<>>
         /\ UNCHANGED <<cur, reg, docs, ret, conf, nodes, retn, wconf>>

TrPush == /\ IsEvent("push_node")
          /\ nodes' = IF nodes = <<>> THEN nodes ELSE [nodes EXCEPT ![Len(nodes)] = Append(@, [name |-> ev.name, ns |-> ev.ns])]
          /\ UNCHANGED <<cur, rd, reg, docs, ret, conf, retn, wconf>> /\ UNCHANGED WVars

\* an emit event must be the step the writer machine can take now, with that subject
WStep == CASE ev.section = "header" -> Header
           [] ev.section = "module_open" -> OpenModule /\ Head(mods).name = ev.subject
           [] ev.section = "node" -> Node /\ Head(open) = ev.subject
           [] ev.section = "module_close" -> CloseModule(ev.subject)
           [] ev.section = "root_node" -> RootNode /\ Head(roots) = ev.subject
           [] ev.section = "helpers" -> Helpers
           [] OTHER -> FALSE
WCan == CASE ev.section = "header" -> phase = "start"
          [] ev.section = "module_open" -> phase = "between" /\ mods # <<>> /\ Head(mods).name = ev.subject
          [] ev.section = "node" -> phase = "in_module" /\ open # <<>> /\ Head(open) = ev.subject
          [] ev.section = "module_close" -> phase = "in_module" /\ open = <<>>
          [] ev.section = "root_node" -> phase \in {"between", "root"} /\ mods = <<>> /\ roots # <<>> /\ Head(roots) = ev.subject
          [] ev.section = "helpers" -> phase \in {"between", "root", "bindings", "services"} /\ mods = <<>> /\ roots = <<>>
          [] OTHER -> FALSE
TrEmit == /\ IsEvent("emit")
          /\ IF wconf /\ WCan THEN WStep /\ wconf' = wconf ELSE wconf' = FALSE /\ UNCHANGED WVars
          /\ UNCHANGED <<cur, rd, reg, docs, ret, conf, nodes, retn>>

\* the file recursion: a new document per file (seeded from its importer's), returned on leave, merged by the importer
TrEnter == /\ IsEvent("enter_file")
           /\ docs' = Append(docs, IF docs = <<>> THEN EmptyDoc ELSE Seed(TopDoc, Dev))
           /\ nodes' = Append(nodes, <<>>)
           /\ UNCHANGED <<cur, rd, reg, ret, conf, retn, wconf>> /\ UNCHANGED WVars
TrLeave == /\ IsEvent("leave_file")
           /\ IF docs = <<>> THEN conf' = FALSE /\ UNCHANGED <<docs, ret>>
              ELSE ret' = TopDoc /\ docs' = SubSeq(docs, 1, Len(docs) - 1) /\ conf' = conf
           /\ IF nodes = <<>> THEN UNCHANGED <<nodes, retn>> ELSE retn' = nodes[Len(nodes)] /\ nodes' = SubSeq(nodes, 1, Len(nodes) - 1)
           /\ UNCHANGED <<cur, rd, reg, wconf>> /\ UNCHANGED WVars
TrMerge == /\ IsEvent("merge")
           /\ IF docs = <<>> THEN conf' = FALSE /\ UNCHANGED docs
              ELSE /\ docs' = SetTop(Merge(TopDoc, ret, Dev))
                   /\ conf' = (conf /\ Len(Merge(TopDoc, ret, Dev).nss) = ev.nss /\ Len(Merge(TopDoc, ret, Dev).tns) = ev.tns)
           /\ ret' = EmptyDoc
           /\ IF nodes = <<>> THEN UNCHANGED nodes ELSE nodes' = [nodes EXCEPT ![Len(nodes)] = @ \o retn]
           /\ retn' = <<>>
           /\ UNCHANGED <<cur, rd, reg, wconf>> /\ UNCHANGED WVars

\* registry events of one document must never hand out one abbreviation for two URIs
TrNs == /\ l <= Len(Rec) /\ ev.ev \in {"ns_ref", "switch_tns"} /\ l' = l + 1
        /\ reg' = IF ev.abbr = "null" \/ ev.outcome = "prefix_taken" THEN reg ELSE reg \cup {<<ev.abbr, ev.uri>>}
        /\ IF docs = <<>> \/ (BaseOfUri(ev.uri) = "?" /\ ev.uri \notin WellKnown)
           THEN UNCHANGED <<docs, conf>>        \* a URI outside the vocabulary: not predicted
           ELSE IF ev.ev = "ns_ref"
                THEN LET wk == ev.uri \in WellKnown
                         o == AddRefOutcomeD(TopDoc, ev.prefix, ev.uri, wk, Dev)
                         ns == AddRefNsD(TopDoc, ev.prefix, ev.uri, BaseOfUri(ev.uri), wk, Dev)
                     IN /\ docs' = SetTop(AddRefD(TopDoc, ev.prefix, ev.uri, BaseOfUri(ev.uri), wk, Dev))
                        /\ conf' = (conf /\ o = ev.outcome /\ (ns = None \/ o = "prefix_taken" \/ Label(ns) = ev.abbr))
                ELSE LET o == SwitchOutcome(TopDoc, ev.uri)
                         d2 == SwitchTns(TopDoc, ev.uri, BaseOfUri(ev.uri), Dev)
                     IN /\ docs' = SetTop(d2)
                        /\ conf' = (conf /\ o = ev.outcome /\ (d2.cur = None \/ Label(d2.cur) = ev.abbr))
        /\ UNCHANGED <<cur, rd, ret, nodes, retn, wconf>> /\ UNCHANGED WVars

TrWritten ==
  /\ IsEvent("written")
  /\ IF "out" \notin DOMAIN ev \/ ~ev.out.parses
     THEN PrintT(<<"VIOL", ToJson(Inst(V("parses", "output", "1", "0")))>>) /\ TLCSet(2, TLCGet(2) + 1)
     ELSE LET obs == NsViol(ev.out, cur.case.types)
              pred == IF Dev = {} THEN {} ELSE NsViol(cur.case.pred, cur.case.types)
          IN /\ \A v \in obs \ pred : PrintT(<<"VIOL", ToJson(Inst(v))>>)
             /\ \A v \in obs \cap pred : PrintT(<<"KNOWN", ToJson(Inst(v) @@ [devs |-> Dev])>>)
             /\ \A v \in pred \ obs : PrintT(<<"STALE", ToJson(Inst(v))>>)
             /\ TLCSet(2, TLCGet(2) + Cardinality(obs \ pred))
             \* step-level: the modules the model predicts are the modules observed
             /\ ({m.name : m \in {ev.out.mods[i] : i \in 1..Len(ev.out.mods)}} # {m.name : m \in {cur.case.pred.mods[i] : i \in 1..Len(cur.case.pred.mods)}})
                   => PrintT(<<"DRIFT", ToJson([id |-> cur.id, what |-> "module labels differ from the model's"])>>)
  /\ UNCHANGED <<cur, rd, reg, docs, ret, conf, nodes, retn, wconf>> /\ UNCHANGED WVars

TrDone ==
  /\ IsEvent("done")
  /\ IF rd # "doc" THEN PrintT(<<"VIOL", ToJson(Inst(V("accepted", "read_xml", "doc", rd)))>>) /\ TLCSet(2, TLCGet(2) + 1) ELSE TRUE
  /\ (\E a, b \in reg : a[1] = b[1] /\ a[2] # b[2]) => PrintT(<<"DRIFT", ToJson([id |-> cur.id, what |-> "one abbreviation for two URIs in registry events"])>>)
  /\ (~conf) => PrintT(<<"DRIFT", ToJson([id |-> cur.id, what |-> "a registry event is not the step spec/Registry.tla takes"])>>)
  /\ (~wconf \/ (rd = "doc" /\ phase # "end")) => PrintT(<<"DRIFT", ToJson([id |-> cur.id, what |-> "the emit events are not a behaviour of spec/Writer.tla", phase |-> phase])>>)
  /\ TLCSet(1, TLCGet(1) + 1) /\ TLCSet(3, TLCGet(3) + (IF conf /\ wconf THEN 1 ELSE 0))
  /\ UNCHANGED <<cur, rd, reg, docs, ret, conf, nodes, retn, wconf>> /\ UNCHANGED WVars

TrOther == /\ l <= Len(Rec) /\ ev.ev \notin {"case", "ret", "written", "done", "ns_ref", "switch_tns", "enter_file", "leave_file", "merge", "push_node", "emit"} /\ l' = l + 1
           /\ UNCHANGED <<cur, rd, reg, docs, ret, conf, nodes, retn, wconf>> /\ UNCHANGED WVars
TraceNext == TrCase \/ TrRet \/ TrNs \/ TrEnter \/ TrLeave \/ TrMerge \/ TrPush \/ TrEmit \/ TrWritten \/ TrDone \/ TrOther
TraceSpec == TraceInit /\ [][TraceNext]_<<tvars, WVars>>
Accepted == /\ PrintT(<<"TALLY", TLCGet(1), TLCGet(2), TLCGet(3)>>)
            /\ IF TLCGet("stats").diameter = Len(Rec) THEN TRUE
               ELSE PrintT(<<"UNMATCHED", TLCGet("stats").diameter, Len(Rec)>>) /\ FALSE
=======================================================================
