--------------------------- MODULE Trace_CR ---------------------------
(***************************************************************************)
(* Trace validation of the compile/run pipeline.  Per case the events are:  *)
(*   generated        the real generator accepted the set and wrote a file  *)
(*   compiled         rustc on the emitted file as a module of a crate that *)
(*                    has only the documented dependencies                  *)
(*   driver_compiled  rustc on the synthesised driver (typed struct         *)
(*                    literals from Schema!ExpFields, method signatures,    *)
(*                    Send assertions)                                      *)
(*   ser / fix / de   documents produced by yaserde for plan-built values,  *)
(*                    the serialise-deserialise-serialise round, and the    *)
(*                    reading of instance documents, as infosets            *)
(*   env / call / ... envelopes and client calls (C05, C07, C16)            *)
(* P selects the property whose clauses are reported.                       *)
(***************************************************************************)
EXTENDS Wire, ClientFn, Json, IOUtils, TLCExt

CONSTANTS Dev, P
Rec == ndJsonDeserialize(IOEnv.TRACE)
Voc == Rec[1].vocab
TokOfTrace == Voc.tokens     \* the token table travels with the trace
UriStr(id) == IF "uris" \in DOMAIN Voc /\ id \in DOMAIN Voc.uris THEN Voc.uris[id].uri ELSE id
NameXml(id) == IF "names" \in DOMAIN Voc /\ id \in DOMAIN Voc.names THEN Voc.names[id].xml ELSE id

VARIABLES l, cur, st, refbad    \* refbad: (root, plan, style) keys the reference structs could not carry either
tvars == <<l, cur, st, refbad>>
TraceInit == l = 2 /\ cur = None /\ refbad = {} /\ st = [gen |-> "none", comp |-> "none", drv |-> "none"] /\ TLCSet(1, 0) /\ TLCSet(2, 0) /\ TLCSet(3, 0)
ev == Rec[l]
IsEvent(k) == l <= Len(Rec) /\ ev.ev = k /\ l' = l + 1
S == [files |-> cur.case.files, start |-> cur.case.start]
AsSet(s) == {s[i] : i \in 1..Len(s)}

V(clause, subj, exp, got) == [prop |-> P, id |-> cur.id, label |-> cur.case.label, clause |-> clause, subj |-> subj, exp |-> exp, got |-> got]
Report(vs) == /\ \A v \in vs : PrintT(<<"VIOL", ToJson(v)>>)
              /\ TLCSet(2, TLCGet(2) + Cardinality(vs))
Count1 == TLCSet(3, TLCGet(3) + 1)

---------------------------------------------------------------------------
(* infosets: expectation (Wire!ExpInfoset, namespace ids) against observation (URIs, attrs as a list) *)
RECURSIVE Diff(_, _, _)
Diff(e, o, path) ==
  LET here == path \o "/" \o NameXml(e.local)
      eattrs == {[name |-> NameXml(a.name), text |-> a.text] : a \in e.attrs}
      oattrs == {[name |-> o.attrs[i].name, text |-> o.attrs[i].text] : i \in 1..Len(o.attrs)}
      etext == IF e.kids = <<>> /\ e.text = "-" THEN "" ELSE e.text
      ens == IF e.ns = "unqualified" THEN "" ELSE UriStr(e.ns)       \* an unqualified local element is in no namespace
  IN IF ens # o.ns \/ NameXml(e.local) # o.local
     THEN {[at |-> here, what |-> "element name", exp |-> ens \o " " \o NameXml(e.local), got |-> o.ns \o " " \o o.local]}
     ELSE (IF eattrs # oattrs THEN {[at |-> here, what |-> "attributes", exp |-> ToString(eattrs), got |-> ToString(oattrs)]} ELSE {})
          \cup (IF Len(e.kids) # Len(o.kids)
                THEN {[at |-> here, what |-> "number of children", exp |-> ToString(Len(e.kids)), got |-> ToString(Len(o.kids))]}
                ELSE UNION {Diff(e.kids[i], o.kids[i], here) : i \in 1..Len(e.kids)})
          \cup (IF e.kids = <<>> /\ etext # o.text /\ etext # "?"
                THEN {[at |-> here, what |-> "text", exp |-> etext, got |-> o.text]} ELSE {})

RootComp(rid) == CHOOSE c \in StructComps(S) : (c.ns \o "|" \o NameXml(c.n)) = rid
HasRoot(rid) == \E c \in StructComps(S) : (c.ns \o "|" \o NameXml(c.n)) = rid
\* a struct serialised on its own is named after its component; only the content is prescribed by the schema
Expected(rid, plan) == ExpInfoset(S, RootComp(rid), plan)
DocViol(clause, rid, plan, tag, info) ==
  IF ~info.wf THEN {V(clause, rid \o "/" \o tag, "namespace-well-formed XML", "not well-formed: " \o info.err)}
  ELSE {V(clause, rid \o "/" \o tag \o " " \o d.at, d.what \o " = " \o d.exp, d.got) : d \in Diff(Expected(rid, plan), info.tree, "")}

---------------------------------------------------------------------------
TrCase == IsEvent("case") /\ cur' = ev /\ refbad' = {} /\ st' = [gen |-> "none", comp |-> "none", drv |-> "none"]
\* the identical check on the independently written reference structs: what yaserde itself cannot carry is excluded (C04)
TrRef == /\ l <= Len(Rec) /\ ev.ev \in {"de_ref", "fix_ref"} /\ l' = l + 1
         /\ refbad' = IF ev.ok THEN refbad ELSE refbad \cup {<<ev.ev, ev.root, ev.plan, IF ev.ev = "de_ref" THEN ev.style ELSE "-">>}
         /\ (~ev.ok /\ P = "C04") => PrintT(<<"EXCLUDED", ToJson([id |-> cur.id, root |-> ev.root, plan |-> ev.plan, what |-> ev.ev])>>)
         /\ UNCHANGED <<cur, st>>

TrGenerated == /\ IsEvent("generated")
               /\ st' = [st EXCEPT !.gen = IF ev.ok THEN "ok" ELSE "fail"]
               /\ IF P = "C01" /\ ~ev.ok THEN Report({V("generator_accepts", "read/write", "doc/ok", ev.read \o "/" \o ev.write)}) ELSE TRUE
               /\ UNCHANGED <<cur, refbad>>
TrCompiled == /\ IsEvent("compiled")
              /\ st' = [st EXCEPT !.comp = IF ev.ok THEN "ok" ELSE "fail"]
              \* "D34" (as built): every binding writes the envelope types of its operations; two bindings of one port type
              \* (SOAP 1.1 and 1.2) define each of them twice (E0428, E0119)
              /\ LET two == cur.case.kind = "wsdl" /\ "second_binding" \in DOMAIN cur.case.files[1].wsdl
                     pred == "D34" \in Dev /\ two
                     v == V("compiles", "emitted file", "rustc ok", IF Len(ev.errors) > 0 THEN ev.errors[1] ELSE "error")
                 IN IF P # "C01" THEN TRUE
                    ELSE IF ev.ok THEN (pred => PrintT(<<"STALE", ToJson(V("compiles", "emitted file", "E0428 (D34)", "rustc ok"))>>))
                    ELSE IF pred /\ \A i \in 1..Len(ev.errors) : SubSeq(ev.errors[i], 1, 5) \in {"E0428", "E0119"}
                         THEN PrintT(<<"KNOWN", ToJson(v @@ [devs |-> {"D34"}])>>)
                    ELSE Report({v})
              /\ Count1 /\ UNCHANGED <<cur, refbad>>
TrDriver == /\ IsEvent("driver_compiled")
            /\ st' = [st EXCEPT !.drv = IF ev.ok THEN "ok" ELSE "fail"]
            /\ IF P \in {"C02", "C05", "C18"} /\ ~ev.ok
               THEN Report({V("typed_driver_compiles", "driver", "rustc ok", IF Len(ev.errors) > 0 THEN ev.errors[1] ELSE "error")}) ELSE TRUE
            /\ UNCHANGED <<cur, refbad>>

TrSer == /\ IsEvent("ser")
         /\ IF P = "C03" /\ HasRoot(ev.root)
            THEN /\ Report((IF ev.ok THEN {} ELSE {V("serialises", ev.root \o "/" \o ev.plan, "Ok", "Err")})
                           \cup (IF ev.ok THEN DocViol("schema_conformant", ev.root, ev.plan, ev.plan, ev.info) ELSE {}))
                 /\ Count1
            ELSE IF P = "C07" /\ HasRoot(ev.root) /\ ev.ok
                 THEN Report(IF ev.check_ok THEN {} ELSE {V("valid_passes", ev.root \o "/" \o ev.plan, "check ok", "restriction error")}) /\ Count1
                 ELSE TRUE
         /\ UNCHANGED <<cur, st, refbad>>
\* an independent XSD validator (libxml2) on the serialised document: for a plain component every plan is schema-valid.
\* (`wide` values lie outside the documented carrier, D27, and are not serialised by the typed driver at all.)
TrXsd == /\ IsEvent("xsd_valid")
         /\ IF P = "C03" /\ HasRoot(ev.root) /\ Plain(S, RootComp(ev.root), 5)
            THEN Report(IF ev.valid THEN {} ELSE {V("xsd_valid", ev.root \o "/" \o ev.plan, "accepted by the XSD validator", ev.msg)}) /\ Count1
            ELSE TRUE
         /\ UNCHANGED <<cur, st, refbad>>
TrFix == /\ IsEvent("fix")
         /\ IF P = "C04" /\ HasRoot(ev.root) /\ <<"fix_ref", ev.root, ev.plan, "-">> \notin refbad
            THEN /\ Report(IF ~ev.ok THEN {V("fixpoint", ev.root \o "/" \o ev.plan, "deserialises", "Err: " \o ev.info.err)}
                           ELSE IF ~ev.same_text THEN {V("fixpoint", ev.root \o "/" \o ev.plan, "ser(de(ser(v))) = ser(v)", "different document")} ELSE {})
                 /\ Count1
            ELSE TRUE
         /\ UNCHANGED <<cur, st, refbad>>
TrDe == /\ IsEvent("de")
        /\ IF P = "C04" /\ HasRoot(ev.root) /\ <<"de_ref", ev.root, ev.plan, ev.style>> \notin refbad
           THEN /\ LET vs == IF ~ev.ok THEN {V("instance_deserialises", ev.root \o "/" \o ev.plan \o "/" \o ev.style, "Ok", "Err: " \o ev.debug)}
                             ELSE DocViol("lossless", ev.root, ev.plan, ev.plan \o "/" \o ev.style, ev.info)
                       \* D27: the documented carrier of the unbounded integer types is i32
                       d27 == "D27" \in Dev /\ ev.plan = "wide" /\ HasWide(S, RootComp(ev.root), 4)
                   IN IF d27 THEN (\A v \in vs : PrintT(<<"KNOWN", ToJson(v @@ [devs |-> {"D27"}])>>))
                                  /\ (vs = {} => PrintT(<<"STALE", ToJson(V("instance_deserialises", ev.root \o "/wide", "Err (D27)", "Ok"))>>))
                      ELSE Report(vs)
                /\ Count1
           ELSE TRUE
        /\ UNCHANGED <<cur, st, refbad>>

---------------------------------------------------------------------------
(* SOAP envelopes, the service type, client calls *)
OpOf(nm) == cur.case.ops[CHOOSE i \in 1..Len(cur.case.ops) : cur.case.ops[i].n = nm]
HasOutput(op) == "none" \notin DOMAIN op.output
\* the case's op records come back from JSON: body/headers elements are [ns, n]
IoOf(op, dir) == IF dir = "input" THEN op.input ELSE op.output
EnvViol(clause, opn, dir, info) ==
  IF ~info.wf THEN {V(clause, opn \o "/" \o dir, "namespace-well-formed XML", "not well-formed: " \o info.err)}
  ELSE {V(clause, opn \o "/" \o dir \o " " \o d.at, d.what \o " = " \o d.exp, d.got) : d \in Diff(ExpEnvelope(S, IoOf(OpOf(opn), dir), "max"), info.tree, "")}

TrEnv == /\ IsEvent("env")
         /\ IF P = "C05"
            THEN Report(IF ~ev.ok THEN {V("envelope_type", ev.op \o "/" \o ev.dir, "struct exists and serialises", ev.info.err)}
                        ELSE EnvViol("envelope", ev.op, ev.dir, ev.info)) /\ Count1
            ELSE IF P = "C07" /\ ev.dir = "input" /\ ev.ok
                 THEN Report(IF ev.check_ok THEN {} ELSE {V("valid_passes", ev.op, "check ok", "restriction error")}) /\ Count1
                 ELSE TRUE
         /\ UNCHANGED <<cur, st, refbad>>
TrEnvDe == /\ IsEvent("env_de")
           /\ IF P = "C05"
              THEN Report(IF ~ev.ok THEN {V("response_parses", ev.op, "Ok", "Err: " \o ev.info.err)} ELSE EnvViol("response_lossless", ev.op, "output", ev.info)) /\ Count1
              ELSE TRUE
           /\ UNCHANGED <<cur, st, refbad>>
TrEnvCheck == /\ IsEvent("env_check")
              /\ IF P = "C07" THEN Report(IF ev.check_ok THEN {V("violation_fails", ev.op, "restriction error", "check ok")} ELSE {}) /\ Count1 ELSE TRUE
              /\ UNCHANGED <<cur, st, refbad>>
TrSerCheck == TRUE

OpSnakes == {cur.case.ops[i].snake : i \in 1..Len(cur.case.ops)}
TrService ==
  /\ IsEvent("service")
  /\ IF P = "C05"
     THEN Report((IF ev.present THEN {} ELSE {V("service_type", ev.name, "struct named after the service", "absent")})
                 \cup {V("one_method_per_operation", sn, "1", ToString(Cardinality({i \in 1..Len(ev.methods) : ev.methods[i] = sn}))) :
                          sn \in {x \in OpSnakes : Cardinality({i \in 1..Len(ev.methods) : ev.methods[i] = x}) # 1}}
                 \cup {V("no_other_method", ev.methods[i], "only the operations", ev.methods[i]) :
                          i \in {i \in 1..Len(ev.methods) : ev.methods[i] \notin OpSnakes \cup {"new"}}})
     ELSE TRUE
  /\ UNCHANGED <<cur, st, refbad>>

\* the address the WSDL's port gives (a text id of the vocabulary), character for character
DeclaredAddr == Voc.texts[cur.case.files[1].wsdl.address]
ScriptOf(e) == IF e.kind = "reply" THEN [k |-> "reply", status |-> e.status, body |-> e.body] ELSE [k |-> e.kind]
\* an operation without output has no envelope to parse: any 2xx reply is a success
Expect(e) == LET o == Outcome(e.violates, e.creds, ScriptOf(e)) IN
             IF ~e.has_out /\ e.kind = "reply" /\ e.status < 400 /\ ~e.violates THEN [o EXCEPT !.result = "ok"] ELSE o
ErrClass(r) == r \notin {"ok", "panic", "timeout"}
KindDrift(e) == LET x == Expect(e) IN
  IF P = "C16" /\ ~e.violates /\ e.result # x.result /\ ErrClass(e.result) /\ ErrClass(x.result)
  THEN PrintT(<<"DRIFT", ToJson([prop |-> P, id |-> cur.id, what |-> "error kind", subj |-> e.op \o "/" \o ToString(e.scn), model |-> x.result, code |-> e.result])>>)
  ELSE TRUE
CallViol(e) ==
  LET x == Expect(e)
      subj == e.op \o "/" \o ToString(e.scn) \o "/" \o e.kind \o "/" \o ToString(e.status) \o "/" \o e.body IN
     \* C16 speaks of value / error, not of the error's kind: a different kind of error is drift (reported, no alarm)
     {V("result", subj, x.result, e.result) : z \in {1} \cap (IF e.result = x.result \/ (P = "C16" /\ ErrClass(e.result) /\ ErrClass(x.result)) THEN {} ELSE {1})}
  \cup {V("one_post", subj, ToString(x.posts), ToString(e.posts)) : z \in {1} \cap (IF e.posts = x.posts THEN {} ELSE {1})}
  \cup {V("connections", subj, ToString(x.conns), ToString(e.accepted)) : z \in {1} \cap (IF e.accepted = x.conns THEN {} ELSE {1})}
  \cup {V("method_post", subj, "POST", e.method) : z \in {1} \cap (IF e.posts >= 1 /\ e.method # "POST" THEN {1} ELSE {})}
  \cup {V("auth_iff_credentials", subj \o "/" \o e.creds, IF e.creds # "none" THEN "correct" ELSE "absent", e.auth) :
           z \in {1} \cap (IF e.posts >= 1 /\ e.auth # (IF e.creds # "none" THEN "correct" ELSE "absent") THEN {1} ELSE {})}
  \cup {V("body_is_serialised_request", subj, "1", "0") : z \in {1} \cap (IF e.posts >= 1 /\ ~e.body_is_ser THEN {1} ELSE {})}
  \cup {V("value_is_reply", subj, "returned envelope = reply", "different") :
           z \in {1} \cap (IF e.result = "ok" /\ e.has_out /\ e.body = "exact" /\ ~e.same_value THEN {1} ELSE {})}

TrCall ==
  /\ IsEvent("call")
  /\ CASE P = "C16" -> Report({v \in CallViol(ev) : ~ev.violates}) /\ KindDrift(ev) /\ Count1
       [] P = "C07" -> (IF ev.violates THEN Report({v \in CallViol(ev) : v.clause \in {"result", "connections", "one_post"}}) /\ Count1 ELSE TRUE)
       [] P = "C05" -> (IF ev.posts >= 1
                        THEN Report((IF ev.path = "/zv/items" THEN {} ELSE {V("posts_to_service_address", ev.op, "/zv/items", ev.path)})
                                    \cup (IF ev.declared = DeclaredAddr THEN {} ELSE {V("address_of_wsdl_port", ev.op, DeclaredAddr, ev.declared)}))
                        ELSE TRUE)
       [] OTHER -> TRUE
  /\ UNCHANGED <<cur, st, refbad>>

\* reader half of C05 (P = "C05reader", on the in-process generation traces): the hook event soap_binding shows which
\* node the reader bound to each operation's body and header parts, before anything is written
SoapOp(ops, nm) == ops[CHOOSE i \in 1..Len(ops) : ops[i].op = nm]
HasSoapOp(ops, nm) == \E i \in 1..Len(ops) : ops[i].op = nm
BoundViol(opn, dir, io, bound) ==
     (IF bound.body.name = NameXml(io.body.n) /\ bound.body.ns = UriStr(io.body.ns) /\ bound.body.kind \in {"element_complex", "element_typed"} THEN {}
      ELSE {V("reader_body_is_part_element", opn \o "/" \o dir, UriStr(io.body.ns) \o " " \o NameXml(io.body.n), bound.body.ns \o " " \o bound.body.name)})
  \cup {V("reader_header_is_part_element", opn \o "/" \o dir \o "/" \o io.headers[i].part, NameXml(io.headers[i].el.n), "other") :
          i \in {i \in 1..Len(io.headers) : ~\E j \in 1..Len(bound.headers) :
                     bound.headers[j].part = io.headers[i].part /\ bound.headers[j].node.name = NameXml(io.headers[i].el.n)
                     /\ bound.headers[j].node.ns = UriStr(io.headers[i].el.ns)}}
TrSoapBinding ==
  /\ IsEvent("soap_binding")
  /\ IF P = "C05reader" /\ (\E k \in 1..Len(cur.case.bindings) : ev.name \in {NameXml(cur.case.bindings[k]), NameXml(cur.case.bindings[k]) \o "12"})
     THEN /\ Report(UNION {IF ~HasSoapOp(ev.ops, cur.case.ops[i].n) THEN {V("reader_operation_bound", cur.case.ops[i].n, "bound", "missing")}
                           ELSE BoundViol(cur.case.ops[i].n, "input", cur.case.ops[i].input, SoapOp(ev.ops, cur.case.ops[i].n).input)
                                \cup (IF HasOutput(cur.case.ops[i]) /\ "body" \in DOMAIN SoapOp(ev.ops, cur.case.ops[i].n).output
                                      THEN BoundViol(cur.case.ops[i].n, "output", cur.case.ops[i].output, SoapOp(ev.ops, cur.case.ops[i].n).output) ELSE {})
                           : i \in 1..Len(cur.case.ops)})
          /\ Count1
     ELSE TRUE
  /\ UNCHANGED <<cur, st, refbad>>

\* a case whose file did not compile produces no observations: that is reported once for the run-time properties too
TrDone == /\ IsEvent("done")
          /\ IF P \in {"C02", "C03", "C04", "C05", "C07", "C16", "C18"} /\ (st.gen # "ok" \/ st.comp # "ok" \/ st.drv # "ok")
             THEN Report({V("observable", "pipeline", "generated, compiled, driver built", st.gen \o "/" \o st.comp \o "/" \o st.drv)})
             ELSE TRUE
          /\ TLCSet(1, TLCGet(1) + 1)
          /\ UNCHANGED <<cur, st, refbad>>
Handled == {"case", "xsd_valid", "generated", "compiled", "driver_compiled", "ser", "fix", "de", "de_ref", "fix_ref", "done", "env", "env_de", "env_check", "service", "call", "soap_binding"}
TrOther == l <= Len(Rec) /\ ev.ev \notin Handled /\ l' = l + 1 /\ UNCHANGED <<cur, st, refbad>>
TraceNext == TrCase \/ TrXsd \/ TrRef \/ TrSoapBinding \/ TrEnv \/ TrEnvDe \/ TrEnvCheck \/ TrService \/ TrCall \/ TrGenerated \/ TrCompiled \/ TrDriver \/ TrSer \/ TrFix \/ TrDe \/ TrDone \/ TrOther
TraceSpec == TraceInit /\ [][TraceNext]_tvars
Accepted == /\ PrintT(<<"TALLY", TLCGet(1), TLCGet(2), TLCGet(3)>>)
            /\ IF TLCGet("stats").diameter = Len(Rec) THEN TRUE
               ELSE PrintT(<<"UNMATCHED", TLCGet("stats").diameter, Len(Rec)>>) /\ FALSE
=======================================================================
