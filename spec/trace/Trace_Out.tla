--------------------------- MODULE Trace_Out ---------------------------
(***************************************************************************)
(* Trace validation of one generation per case: the abstract schema set is  *)
(* echoed in the `case` event, the abstracted emitted file arrives in the   *)
(* `written` event.  TLC evaluates, for every component that must have a    *)
(* struct, the clauses of C02 / C08 / C09 on the OBSERVED struct (Obs) and  *)
(* on the struct the as-built model predicts under the listed deviations    *)
(* (Pred), and reports Obs \ Pred as VIOL, Obs \cap Pred as KNOWN,          *)
(* Pred \ Obs as STALE.                                                     *)
(***************************************************************************)
EXTENDS Build, Json, IOUtils, TLCExt

CONSTANTS Dev,   \* deviations listed as open findings
          P      \* the property being checked: selects the clauses that are reported

Rec == ndJsonDeserialize(IOEnv.TRACE)
Voc == Rec[1].vocab
NameRec(id) == IF "names" \in DOMAIN Voc /\ id \in DOMAIN Voc.names THEN Voc.names[id] ELSE [xml |-> id, pascal |-> id, snake |-> id]
NameXml(id) == NameRec(id).xml
UriStr(id) == IF "uris" \in DOMAIN Voc /\ id \in DOMAIN Voc.uris THEN Voc.uris[id].uri ELSE id

VARIABLES l, cur, rd
tvars == <<l, cur, rd>>

TraceInit == l = 2 /\ cur = None /\ rd = "none" /\ TLCSet(1, 0) /\ TLCSet(2, 0) /\ TLCSet(3, 0)
ev == Rec[l]
IsEvent(k) == l <= Len(Rec) /\ ev.ev = k /\ l' = l + 1

---------------------------------------------------------------------------
(* reading the abstracted output *)
RustBuiltins == {"String", "i8", "i16", "i32", "i64", "u8", "u16", "u32", "u64", "f32", "f64", "bool"}

ModItems(out, m) == IF m = "" THEN out.root
                    ELSE IF \E i \in 1..Len(out.mods) : out.mods[i].name = m
                         THEN out.mods[CHOOSE i \in 1..Len(out.mods) : out.mods[i].name = m].items
                         ELSE <<>>
Named(items, nm) == {items[j] : j \in {j \in 1..Len(items) : items[j].k \in {"struct", "alias"} /\ items[j].name = nm}}

NsBinding(pairs, p) == IF \E i \in 1..Len(pairs) : pairs[i][1] = p
                       THEN pairs[CHOOSE i \in 1..Len(pairs) : pairs[i][1] = p][2]
                       ELSE "unbound"
NsOfStruct(s) == IF "prefix" \in DOMAIN s.y /\ "namespaces" \in DOMAIN s.y THEN NsBinding(s.y.namespaces, s.y.prefix) ELSE "none"
RenameOf(s) == IF "rename" \in DOMAIN s.y THEN s.y.rename ELSE s.name

RECURSIVE ResolveSeg(_, _, _, _)
ResolveSeg(out, m, seg, fuel) ==
  IF fuel = 0 \/ seg = <<>> THEN [k |-> "unresolved"]
  ELSE IF Len(seg) = 1 /\ seg[1] \in RustBuiltins THEN [k |-> "builtin", rust |-> seg[1]]
  ELSE LET mm == IF Len(seg) >= 2 THEN seg[Len(seg) - 1] ELSE m
           nm == seg[Len(seg)]
           cands == Named(ModItems(out, mm), nm) \cup (IF Len(seg) = 1 THEN Named(out.root, nm) ELSE {})
       IN IF cands = {} THEN [k |-> "unresolved"]
          ELSE LET it == CHOOSE x \in cands : TRUE IN
               IF it.k = "struct" THEN [k |-> "struct", ns |-> NsOfStruct(it), n |-> RenameOf(it)]
               ELSE ResolveSeg(out, mm, it.seg, fuel - 1)

\* all structs of the file with the module they stand in
AllStructs(out) ==
  UNION {{[mod |-> out.mods[i].name, s |-> out.mods[i].items[j]] : j \in {j \in 1..Len(out.mods[i].items) : out.mods[i].items[j].k = "struct"}}
           : i \in 1..Len(out.mods)}
  \cup {[mod |-> "", s |-> out.root[j]] : j \in {j \in 1..Len(out.root) : out.root[j].k = "struct"}}

ObsField(out, x, f) ==
  [xml |-> IF "rename" \in DOMAIN f.y THEN f.y.rename ELSE f.name,
   attr |-> ("attribute" \in DOMAIN f.y /\ f.y.attribute = TRUE),
   w |-> f.w,
   target |-> ResolveSeg(out, x.mod, f.seg, 4),
   ns |-> IF "prefix" \in DOMAIN f.y
          THEN (IF "namespaces" \in DOMAIN x.s.y THEN NsBinding(x.s.y.namespaces, f.y.prefix) ELSE "unbound")
          ELSE "unqualified"]
ObsFields(out, x) == [i \in 1..Len(x.s.fields) |-> ObsField(out, x, x.s.fields[i])]

---------------------------------------------------------------------------
(* expectation and prediction in the same (string) space as the observation *)
TargetStr(t) == IF t.k = "struct" THEN [k |-> "struct", ns |-> UriStr(t.ns), n |-> NameXml(t.n)] ELSE t
FieldStr(e) == [xml |-> NameXml(e.xml), attr |-> e.attr, w |-> e.w, target |-> TargetStr(e.target),
                ns |-> IF e.ns \in {"unqualified", "?", "unbound"} THEN e.ns ELSE UriStr(e.ns)]
FieldsStr(fs) == [i \in 1..Len(fs) |-> FieldStr(fs[i])]

S == [files |-> cur.case.files, start |-> cur.case.start]
CompKey(c) == c.k \o ":" \o NameXml(c.n)
Inst(c, v) == [prop |-> P, id |-> cur.id, comp |-> CompKey(c), clause |-> v.clause, subj |-> v.subj, exp |-> v.exp, got |-> v.got]

Derived(c) == c.k \in {"complex", "element"} /\ HasBase(BodyOf(c))
HasFields(c) == c.k = "complex" \/ (c.k = "element" /\ "inline" \in DOMAIN c.it)

\* which clauses belong to the property under check
Clauses == CASE P = "C02" -> {"one_struct", "name", "one_field", "wrapper", "carrier", "no_extra", "field_name"}
             [] P = "C08" -> {"one_struct", "one_field", "wrapper", "carrier", "no_extra", "order", "member_ns"}
             [] P = "C09" -> {"one_struct", "carrier", "one_field", "no_extra"}
             [] OTHER -> {}
InScope(c) == IF P = "C08" THEN Derived(c) ELSE TRUE

ExpOf(c) == FieldsStr(ExpFields(S, FileNamed(S, c.f), c.it, BodyOf(c)))

ObsViol(out, c) ==
  LET xs == {x \in AllStructs(out) : NsOfStruct(x.s) = UriStr(c.ns) /\ RenameOf(x.s) = NameXml(c.n)} IN
  IF Cardinality(xs) # 1
  THEN {[clause |-> "one_struct", subj |-> NameXml(c.n), exp |-> "1", got |-> ToString(Cardinality(xs))]}
  ELSE LET x == CHOOSE y \in xs : TRUE IN
       (IF x.s.name # NameRec(c.n).pascal
        THEN {[clause |-> "name", subj |-> NameXml(c.n), exp |-> NameRec(c.n).pascal, got |-> x.s.name]} ELSE {})
       \cup (IF HasFields(c) THEN FieldViol(ExpOf(c), ObsFields(out, x)) ELSE {})
       \cup (IF HasFields(c)
             THEN {[clause |-> "field_name", subj |-> x.s.fields[i].name, exp |-> "snake_case of the member name", got |-> x.s.fields[i].name] :
                     i \in {i \in 1..Len(x.s.fields) :
                              \* (members that share a local name - an own member named like an inherited one of
                              \* another namespace - are disambiguated by the generator: no exact name is prescribed)
                              \E m \in 1..Len(ExpOf(c)) : ExpOf(c)[m].xml = ObsFields(out, x)[i].xml
                                 /\ Cardinality({k \in 1..Len(ExpOf(c)) : ExpOf(c)[k].xml = ExpOf(c)[m].xml}) = 1
                                 /\ \E nid \in DOMAIN Voc.names : Voc.names[nid].xml = ExpOf(c)[m].xml
                                                                 /\ "snake" \in DOMAIN Voc.names[nid]
                                                                 /\ Voc.names[nid].snake # x.s.fields[i].name}}
             ELSE {})

PredViolD(c, D) ==
  IF Dropped(S, c, D)
  THEN {[clause |-> "one_struct", subj |-> NameXml(c.n), exp |-> "1", got |-> "0"]}
  ELSE IF HasFields(c) THEN FieldViol(ExpOf(c), FieldsStr(BindNs(BuiltFields(S, FileNamed(S, c.f), c.it, BodyOf(c), 8, D), c.ns, D))) ELSE {}

Sel(vs) == {v \in vs : v.clause \in Clauses}

---------------------------------------------------------------------------
TrCase == IsEvent("case") /\ cur' = ev /\ rd' = "none"
TrRet == IsEvent("ret") /\ rd' = ev.outcome /\ UNCHANGED cur

Report(tag, c, vs) == \A v \in vs : PrintT(<<tag, ToJson(Inst(c, v) @@ [devs |-> IF tag = "VIOL" THEN {} ELSE
                                          LET needed == {d \in Dev : v \notin PredViolD(c, Dev \ {d})} IN
                                          IF needed # {} THEN needed ELSE {d \in Dev : v \in PredViolD(c, {d})}])>>)

\* reader half, step level: the field list the reader pushes for a component is the one Build!BuiltFields gives
\* (without the type, which the reader keeps as text); a difference is drift and tells reader from writer defects
PushW(f) == IF f.vec THEN "Vec" ELSE IF f.opt \/ f.choice THEN "Option" ELSE "Bare"
PushShape(fs) == [i \in 1..Len(fs) |-> [xml |-> fs[i].n, attr |-> fs[i].attr, w |-> PushW(fs[i]),
                                         ns |-> IF fs[i].attr THEN "-" ELSE IF fs[i].ns = "null" THEN "unqualified" ELSE fs[i].ns]]
BuiltShape(fs) == [i \in 1..Len(fs) |-> [xml |-> fs[i].xml, attr |-> fs[i].attr, w |-> fs[i].w,
                                          ns |-> IF fs[i].attr THEN "-" ELSE fs[i].ns]]
CompFor(kind, ns, name) == {c \in StructComps(S) : UriStr(c.ns) = ns /\ NameXml(c.n) = name
                                                    /\ c.k = (IF kind = "complex" THEN "complex" ELSE "element")}
TrPush ==
  /\ IsEvent("push_node")
  /\ IF cur # None /\ ev.kind \in {"complex", "element_complex"} /\ CompFor(ev.kind, ev.ns, ev.name) # {}
     THEN LET c == CHOOSE x \in CompFor(ev.kind, ev.ns, ev.name) : TRUE
              built == BuiltShape(FieldsStr(BuiltFields(S, FileNamed(S, c.f), c.it, BodyOf(c), 8, Dev)))
          IN (PushShape(ev.fields) # built) =>
                PrintT(<<"DRIFT", ToJson([id |-> cur.id, what |-> "reader: the fields pushed for " \o ev.name \o " differ from Build!BuiltFields"])>>)
     ELSE TRUE
  /\ UNCHANGED <<cur, rd>>

TrWritten ==
  /\ IsEvent("written")
  /\ IF "out" \notin DOMAIN ev \/ ~ev.out.parses
     THEN /\ PrintT(<<"VIOL", ToJson([prop |-> P, id |-> cur.id, comp |-> "file", clause |-> "parses", subj |-> "output", exp |-> "1", got |-> "0"])>>)
          /\ TLCSet(2, TLCGet(2) + 1)
     ELSE \A c \in {c \in StructComps(S) : InScope(c)} :
            LET obs == Sel(ObsViol(ev.out, c))
                pred == Sel(PredViolD(c, Dev))
            IN /\ Report("VIOL", c, obs \ pred)
               /\ Report("KNOWN", c, obs \cap pred)
               /\ Report("STALE", c, pred \ obs)
               /\ TLCSet(2, TLCGet(2) + Cardinality(obs \ pred))
               /\ TLCSet(3, TLCGet(3) + 1)
  /\ UNCHANGED <<cur, rd>>

\* a case that the generator rejects or that crashes is a violation here: the cases are inside the supported subset
TrDone ==
  /\ IsEvent("done")
  /\ IF rd # "doc"
     THEN PrintT(<<"VIOL", ToJson([prop |-> P, id |-> cur.id, comp |-> "file", clause |-> "accepted", subj |-> "read_xml", exp |-> "doc", got |-> rd])>>)
          /\ TLCSet(2, TLCGet(2) + 1)
     ELSE TRUE
  /\ TLCSet(1, TLCGet(1) + 1)
  /\ UNCHANGED <<cur, rd>>

TrOther == l <= Len(Rec) /\ ev.ev \notin {"case", "ret", "written", "done", "push_node"} /\ l' = l + 1 /\ UNCHANGED <<cur, rd>>

TraceNext == TrCase \/ TrRet \/ TrPush \/ TrWritten \/ TrDone \/ TrOther
TraceSpec == TraceInit /\ [][TraceNext]_tvars

Accepted == /\ PrintT(<<"TALLY", TLCGet(1), TLCGet(2), TLCGet(3)>>)
            /\ IF TLCGet("stats").diameter = Len(Rec) THEN TRUE
               ELSE PrintT(<<"UNMATCHED", TLCGet("stats").diameter, Len(Rec)>>) /\ FALSE
=======================================================================
