--------------------------- MODULE Trace_C14 ---------------------------
(* Trace validation for C14: per case the `lexed` event says whether the emitted file parses and, for the probe,   *)
(* in which lexical class every occurrence of the marker landed and whether the string literal around it carries    *)
(* the original text.  Clauses: the generator returns; the file parses; an occurrence is inside a string literal *)
(* equal to the original (names, enumeration values, URIs), inside a comment, or - for names only - part of a      *)
(* (legal, since the file parses) identifier.  Pred = what spec/Emit.tla says is unsafe under the listed deviations.*)
EXTENDS Emit, Json, IOUtils, TLCExt, Sequences

Rec == ndJsonDeserialize(IOEnv.TRACE)
None == [none |-> TRUE]
VARIABLES l, cur, rd, seen
tvars == <<l, cur, rd, seen>>
TraceInit == l = 2 /\ cur = None /\ rd = "none" /\ seen = FALSE /\ TLCSet(1, 0) /\ TLCSet(2, 0) /\ TLCSet(3, 0)
ev == Rec[l]
IsEvent(k) == l <= Len(Rec) /\ ev.ev = k /\ l' = l + 1
TrCase == IsEvent("case") /\ cur' = ev /\ rd' = "none" /\ seen' = FALSE
TrRet == IsEvent("ret") /\ rd' = ev.outcome /\ UNCHANGED <<cur, seen>>

V(clause, subj, exp, got) == [prop |-> "C14", id |-> cur.id, clause |-> clause, subj |-> subj, exp |-> exp, got |-> got]
Subj == IF cur.case.shape.kind = "payload" THEN cur.case.shape.at \o "/" \o cur.case.shape.cls ELSE cur.case.shape.at \o "/" \o cur.case.shape.kw

\* value equality is demanded where the literal is the text itself; URLs are normalised by the URL parser, URIs are embedded
NeedsEqual(src) == src \in {"name", "enum"}
\* a numeral at a facet is meant to be code: there it must be a Rust integer literal of the same value
\* ("str": value_equal = the literal's value CONTAINS the original text - a name inside a longer fixed message is still data;
\*  "fmt_str" = the literal is the format string of a formatting macro: there braces are code, so the text must be there
\*  with its braces doubled - whatever the source)
OccBad(p, o) == \/ o.cls \in {"code", "char"} /\ p.src # "name" /\ ~(p.cls \in NumClasses /\ o.cls = "code" /\ o.value_equal)
                \/ o.cls = "str" /\ NeedsEqual(p.src) /\ ~o.value_equal
                \/ o.cls = "fmt_str" /\ ~o.value_equal
ProbeViol(p) == {V("marker_is_data", Subj, "string literal = original | comment" \o (IF p.src = "name" THEN " | identifier" ELSE ""), p.occ[i].cls) :
                   i \in {i \in 1..Len(p.occ) : OccBad(p, p.occ[i])}}

\* which (source, class) pairs the model calls unsafe under the listed deviations
SiteIds(src) == {s.id : s \in {s \in Sites : s.src = src}}
ModelUnsafe(src, cls) == \E s \in Sites : s.src = src /\ ~Safe(cls, s)

TrLexed ==
  /\ IsEvent("lexed")
  /\ LET parsesV == IF ev.parses THEN {} ELSE {V("parses", Subj, "1", "0")}
         probesV == UNION {ProbeViol(ev.probes[i]) : i \in 1..Len(ev.probes)}
         writeV == IF ev.write = "ok" THEN {} ELSE {V("written", Subj, "ok", ev.write)}
         obs == parsesV \cup probesV \cup writeV
         known == cur.case.shape.kind = "payload" /\ Dev # {} /\ ModelUnsafe(cur.case.probes[1].src, cur.case.shape.cls)
     IN /\ \A v \in obs : IF known THEN PrintT(<<"KNOWN", ToJson(v @@ [devs |-> Dev])>>)
                          ELSE PrintT(<<"VIOL", ToJson(v)>>) /\ TLCSet(2, TLCGet(2) + 1)
        /\ (obs = {} /\ known) => PrintT(<<"STALE", ToJson(V("model_unsafe_but_observed_safe", Subj, "unsafe", "safe"))>>)
  /\ seen' = TRUE /\ UNCHANGED <<cur, rd>>

TrDone == /\ IsEvent("done")
          /\ IF rd \notin {"doc", "err"} THEN PrintT(<<"VIOL", ToJson(V("returns", Subj, "doc|err", rd))>>) /\ TLCSet(2, TLCGet(2) + 1) ELSE TRUE
          \* a keyword must be usable as a name: the generator accepts the schema
          /\ IF cur.case.shape.kind = "keyword" /\ rd # "doc" THEN PrintT(<<"VIOL", ToJson(V("keyword_usable", Subj, "doc", rd))>>) /\ TLCSet(2, TLCGet(2) + 1) ELSE TRUE
          /\ TLCSet(1, TLCGet(1) + 1)
          /\ UNCHANGED <<cur, rd, seen>>
TrOther == l <= Len(Rec) /\ ev.ev \notin {"case", "ret", "lexed", "done"} /\ l' = l + 1 /\ UNCHANGED <<cur, rd, seen>>
TraceNext == TrCase \/ TrRet \/ TrLexed \/ TrDone \/ TrOther
TraceSpec == TraceInit /\ [][TraceNext]_tvars
Accepted == /\ PrintT(<<"TALLY", TLCGet(1), TLCGet(2), TLCGet(3)>>)
            /\ IF TLCGet("stats").diameter = Len(Rec) THEN TRUE
               ELSE PrintT(<<"UNMATCHED", TLCGet("stats").diameter, Len(Rec)>>) /\ FALSE
=======================================================================
