--------------------------- MODULE Trace_Lookup ---------------------------
(***************************************************************************)
(* Step-level validation of the component look-up (spec/Lookup.tla) on the  *)
(* hook events of real generations.  The events carry what the code did:    *)
(*   enter_file / leave_file / merge   the file recursion                   *)
(*   push_node                         a top-level component is converted   *)
(*   lookup_start {name, ns, wanted}   a by-value look-up begins            *)
(*   placeholder / memo_insert         a stand-in is handed out; the memo   *)
(*                                     gets an entry                        *)
(*   lookup_end {how}                  list | memo | tree | none            *)
(* The specification keeps, per file being read (a stack), the converted    *)
(* components, the memo and the resolving stack exactly as Lookup's actions *)
(* HitList / HitMemo / StandIn / Descend / FinishInner / FinishTop do, and   *)
(* PREDICTS the outcome of every look-up when it starts.  A look-up that     *)
(* ends otherwise, a memo entry made (or not made) against FinishInner's     *)
(* rule, or a stand-in on a valid schema is reported as DRIFT with the step. *)
(* (All replayed schema sets are valid XSD, so Lookup!NoStandInIfValid says  *)
(* there must be no stand-in at all.)                                        *)
(***************************************************************************)
EXTENDS Naturals, Sequences, FiniteSets, TLC, Json, IOUtils, TLCExt

Rec == ndJsonDeserialize(IOEnv.TRACE)
None == [none |-> TRUE]
Voc == Rec[1].vocab
NameXml(id) == IF "names" \in DOMAIN Voc /\ id \in DOMAIN Voc.names THEN Voc.names[id].xml ELSE id

VARIABLES l, cur,
          files,   \* stack of [nodes : set of [name, ns, kind], known : set, memo : set of [name, kind], resolving : Seq([name, kind])]
          ret,     \* nodes of the file left last (waiting for the merge)
          lks,     \* stack of look-ups in progress: [key, pred, inserted, standin]
          ok       \* no drift so far in this case (one report per case)
tvars == <<l, cur, files, ret, lks, ok>>

TraceInit == l = 2 /\ cur = None /\ files = <<>> /\ ret = {} /\ lks = <<>> /\ ok = TRUE
             /\ TLCSet(1, 0) /\ TLCSet(2, 0) /\ TLCSet(3, 0)
ev == Rec[l]
IsEvent(k) == l <= Len(Rec) /\ ev.ev = k /\ l' = l + 1
Range(s) == {s[i] : i \in 1..Len(s)}
TopF == files[Len(files)]
SetTopF(f) == [files EXCEPT ![Len(files)] = f]
KindOf(k) == IF k \in {"complex", "simple"} THEN "type" ELSE IF k \in {"element_typed", "element_complex", "element_unsupported"} THEN "element" ELSE "other"

Drift(what) == /\ (ok => PrintT(<<"DRIFT", ToJson([prop |-> "lookup", id |-> cur.id, at |-> l, what |-> what])>>))
               /\ ok' = FALSE

\* the components declared in the file that is being read (any namespace: the tree search goes by local name)
CurFileName == TopF.file
DeclaredHere(name, kind) ==
  \E i \in 1..Len(cur.case.files) : cur.case.files[i].name = CurFileName /\
     \E j \in 1..Len(cur.case.files[i].items) :
        LET it == cur.case.files[i].items[j] IN
        "n" \in DOMAIN it /\ NameXml(it.n) = name
        /\ ((kind = "type" /\ it.k \in {"complex", "simple"}) \/ (kind = "element" /\ it.k = "element"))

\* Lookup!HitList / HitMemo / StandIn / Descend / Missing, as a function of the state
Predict(name, ns, kind) ==
  LET f == TopF IN
  IF \E n \in f.nodes \cup f.known : n.name = name /\ n.ns = ns /\ n.kind = kind THEN "list"
  ELSE IF [name |-> name, kind |-> kind] \in f.memo THEN "memo"
  ELSE IF ~DeclaredHere(name, kind) THEN "none"
  ELSE IF [name |-> name, kind |-> kind] \in Range(f.resolving) THEN "standin"
  ELSE "tree"

TrCase == /\ IsEvent("case") /\ cur' = ev /\ files' = <<>> /\ ret' = {} /\ lks' = <<>> /\ ok' = TRUE
TrEnter == /\ IsEvent("enter_file")
           /\ files' = Append(files, [file |-> ev.file, nodes |-> {}, memo |-> {}, resolving |-> <<>>,
                                      known |-> IF files = <<>> THEN {} ELSE TopF.known \cup TopF.nodes])
           /\ UNCHANGED <<cur, ret, lks, ok>>
TrLeave == /\ IsEvent("leave_file")
           /\ IF files = <<>> THEN UNCHANGED <<files, ret>> ELSE ret' = TopF.nodes /\ files' = SubSeq(files, 1, Len(files) - 1)
           /\ UNCHANGED <<cur, lks, ok>>
TrMerge == /\ IsEvent("merge")
           /\ IF files = <<>> THEN UNCHANGED files ELSE files' = SetTopF([TopF EXCEPT !.nodes = @ \cup ret])
           /\ ret' = {}
           /\ UNCHANGED <<cur, lks, ok>>
\* Lookup!FinishTop
TrPush == /\ IsEvent("push_node")
          /\ IF files = <<>> \/ KindOf(ev.kind) = "other" THEN UNCHANGED files
             ELSE files' = SetTopF([TopF EXCEPT !.nodes = @ \cup {[name |-> ev.name, ns |-> ev.ns, kind |-> KindOf(ev.kind)]}])
          /\ IF lks # <<>> THEN Drift("a top-level component is pushed while a look-up is still open") ELSE UNCHANGED ok
          /\ UNCHANGED <<cur, ret, lks>>

TrStart == /\ IsEvent("lookup_start")
           /\ IF files = <<>> THEN UNCHANGED <<files, lks>>
              ELSE LET key == [name |-> ev.name, kind |-> ev.wanted]
                       p == Predict(ev.name, ev.ns, ev.wanted)
                   IN /\ lks' = Append(lks, [key |-> key, pred |-> p, inserted |-> FALSE, standin |-> FALSE])
                      /\ files' = IF p = "tree" THEN SetTopF([TopF EXCEPT !.resolving = Append(@, key)]) ELSE files     \* Descend
           /\ UNCHANGED <<cur, ret, ok>>
TrStandIn == /\ IsEvent("placeholder")
             /\ IF lks = <<>> THEN Drift("a stand-in outside any look-up") /\ UNCHANGED lks
                ELSE /\ lks' = [lks EXCEPT ![Len(lks)].standin = TRUE]
                     \* every replayed schema set is valid XSD: Lookup!NoStandInIfValid
                     /\ Drift("a stand-in is handed out for " \o ev.name \o " although the schema is valid (no cycle of extensions)")
             /\ UNCHANGED <<cur, files, ret>>
TrMemo == /\ IsEvent("memo_insert")
          /\ IF lks = <<>> \/ files = <<>> THEN Drift("a memo entry outside any look-up") /\ UNCHANGED <<lks, files>>
             ELSE LET t == lks[Len(lks)] IN
                  /\ lks' = [lks EXCEPT ![Len(lks)].inserted = TRUE]
                  /\ files' = SetTopF([TopF EXCEPT !.memo = @ \cup {[name |-> ev.name, kind |-> ev.wanted]}])
                  /\ IF t.key # [name |-> ev.name, kind |-> ev.wanted] \/ t.pred # "tree"
                     THEN Drift("memo entry for " \o ev.name \o " made by a look-up that did not convert it")
                     ELSE UNCHANGED ok
          /\ UNCHANGED <<cur, ret>>
\* Lookup!FinishInner (pop resolving; the memo must have been filled iff the key is not being resolved further down)
TrEnd == /\ IsEvent("lookup_end")
         /\ IF lks = <<>> \/ files = <<>> THEN UNCHANGED <<lks, files, ok>>
            ELSE LET t == lks[Len(lks)]
                     popped == IF t.pred = "tree" THEN SubSeq(TopF.resolving, 1, Len(TopF.resolving) - 1) ELSE TopF.resolving
                     must == t.pred = "tree" /\ ev.how = "tree" /\ t.key \notin Range(popped)
                     expect == IF t.pred = "standin" THEN "tree" ELSE t.pred
                 IN /\ lks' = SubSeq(lks, 1, Len(lks) - 1)
                    /\ files' = SetTopF([TopF EXCEPT !.resolving = popped])
                    /\ IF ev.how # expect /\ ~(t.pred = "tree" /\ ev.how = "none")      \* a conversion may fail: Lookup!Fail
                       THEN Drift("look-up of " \o t.key.name \o ": the model takes " \o expect \o ", the code took " \o ev.how)
                       ELSE IF must # t.inserted
                            THEN Drift("look-up of " \o t.key.name \o ": memo entry " \o (IF must THEN "expected, none made" ELSE "made against the rule"))
                            ELSE UNCHANGED ok
         /\ TLCSet(3, TLCGet(3) + 1)
         /\ UNCHANGED <<cur, ret>>
TrDone == IsEvent("done") /\ TLCSet(1, TLCGet(1) + 1) /\ UNCHANGED <<cur, files, ret, lks, ok>>
Handled == {"case", "enter_file", "leave_file", "merge", "push_node", "lookup_start", "placeholder", "memo_insert", "lookup_end", "done"}
TrOther == l <= Len(Rec) /\ ev.ev \notin Handled /\ l' = l + 1 /\ UNCHANGED <<cur, files, ret, lks, ok>>
TraceNext == TrCase \/ TrEnter \/ TrLeave \/ TrMerge \/ TrPush \/ TrStart \/ TrStandIn \/ TrMemo \/ TrEnd \/ TrDone \/ TrOther
TraceSpec == TraceInit /\ [][TraceNext]_tvars
Accepted == /\ PrintT(<<"TALLY", TLCGet(1), TLCGet(2), TLCGet(3)>>)
            /\ IF TLCGet("stats").diameter = Len(Rec) THEN TRUE
               ELSE PrintT(<<"UNMATCHED", TLCGet("stats").diameter, Len(Rec)>>) /\ FALSE
=======================================================================
