--------------------------- MODULE Trace_C06 ---------------------------
(* Trace validation for C06: one `case` event (the abstract triple) followed by one `check` event per   *)
(* anchoring with the result the real helper returned.  TLC evaluates Sat (the property) and Built (the *)
(* as-built model under the listed deviations) on the triple and compares them with the observation.   *)
EXTENDS Facets, Json, IOUtils, TLCExt

Rec == ndJsonDeserialize(IOEnv.TRACE)
VARIABLES l, cur
tvars == <<l, cur>>
None == [none |-> TRUE]

\* JSON gives sets back as sequences: rebuild the abstract triple
AsSet(s) == {s[i] : i \in 1..Len(s)}
FixR(r) == [present |-> r.present, minInc |-> AsSet(r.minInc), maxInc |-> AsSet(r.maxInc), minExc |-> AsSet(r.minExc),
            maxExc |-> AsSet(r.maxExc), len |-> AsSet(r.len), minLen |-> AsSet(r.minLen), maxLen |-> AsSet(r.maxLen), enum |-> r.enum]
FixV(carrier, v) == IF carrier = "String" THEN [len |-> v.len, num |-> AsSet(v.num)] ELSE v
FixC(x) == [carrier |-> x.carrier, wrap |-> x.wrap, vals |-> [i \in 1..Len(x.vals) |-> FixV(x.carrier, x.vals[i])], R |-> FixR(x.R)]

TraceInit == l = 1 /\ cur = None /\ TLCSet(1, 0) /\ TLCSet(2, 0) /\ TLCSet(3, 0)
ev == Rec[l]
IsEvent(k) == l <= Len(Rec) /\ ev.ev = k /\ l' = l + 1

TrCase == IsEvent("case") /\ cur' = [id |-> ev.id, c |-> FixC(ev.case.c)]

V(clause, anchor, exp, got) == [prop |-> "C06", id |-> cur.id, clause |-> clause, subj |-> anchor, exp |-> exp, got |-> got,
                               devs |-> Blame(cur.c)]
B(b) == IF b THEN "ok" ELSE "err"

TrCheck == /\ IsEvent("check")
           /\ LET sat == Sat(cur.c)
                  built == Built(cur.c)
                  got == ev.ok
              IN /\ TLCSet(1, TLCGet(1) + 1)
                 /\ IF got # sat
                    THEN IF built = got
                         THEN PrintT(<<"KNOWN", ToJson(V("check_iff_sat", ev.anchor, B(sat), B(got)))>>)
                         ELSE PrintT(<<"VIOL", ToJson(V("check_iff_sat", ev.anchor, B(sat), B(got)))>>) /\ TLCSet(2, TLCGet(2) + 1)
                    ELSE IF built # sat THEN PrintT(<<"STALE", ToJson(V("check_iff_sat", ev.anchor, B(sat), B(got)))>>) ELSE TRUE
           /\ UNCHANGED cur

TrOther == l <= Len(Rec) /\ ev.ev \notin {"case", "check"} /\ l' = l + 1 /\ UNCHANGED cur

TraceNext == TrCase \/ TrCheck \/ TrOther
TraceSpec == TraceInit /\ [][TraceNext]_tvars

Accepted == /\ PrintT(<<"TALLY", TLCGet(1), TLCGet(2), TLCGet(3)>>)
            /\ IF TLCGet("stats").diameter - 1 = Len(Rec) THEN TRUE
               ELSE PrintT(<<"UNMATCHED", TLCGet("stats").diameter, Len(Rec)>>) /\ FALSE
=======================================================================
