--------------------------- MODULE Schema ---------------------------
(***************************************************************************)
(* Abstract syntax of the supported schema subset (DESIGN.md section 2)     *)
(* and its DECLARATIVE semantics: what a reference denotes, which members a *)
(* type has (inherited ones first), with which effective occurrence, and    *)
(* what the generated struct therefore has to look like.  Nothing in this   *)
(* module knows how zeep works.                                             *)
(*                                                                          *)
(* S = [files |-> Seq(File), start |-> file name]                           *)
(* File = [name, kind, tns (uri id), xmlns : Seq(<<prefix, uri>>), items]   *)
(* Item = [k |-> "import", ns, loc]                                         *)
(*      | [k |-> "complex", n, base (TyRef or None), content, attrs, xmlns] *)
(*      | [k |-> "simple",  n, base (TyRef), facets]                        *)
(*      | [k |-> "element", n, ty (TyRef) ] | [k |-> "element", n, inline]  *)
(* Particle = [k |-> "el", n, ty, min, max] | [k |-> "ref", ref, min, max]  *)
(*      | [k |-> "seq", min, max, ps] | [k |-> "choice", ps]                *)
(* Attr = [k |-> "attr", n, ty, use]                                        *)
(* TyRef = [k |-> "builtin", n] | [k |-> "named", p (prefix), n (name id)]  *)
(* min in {0,1}; max in {"1","n","unb"}                                     *)
(***************************************************************************)
EXTENDS Naturals, Sequences, FiniteSets, TLC

None == [none |-> TRUE]
ZRange(s) == {s[i] : i \in 1..Len(s)}

\* the other builtins of XSD whose values are text (added to the table in the build round, D35)
TextBuiltins == {"token", "Name", "NCName", "NMTOKEN", "NMTOKENS", "ID", "IDREF", "IDREFS", "ENTITY", "ENTITIES", "QName", "NOTATION",
                 "gYear", "gYearMonth", "gMonth", "gMonthDay", "gDay", "anySimpleType"}
\* the mapping documented in field.rs as_rust_type (27 names + the text builtins)
Carrier(b) ==
  CASE b = "byte" -> "i8"
    [] b \in {"string", "normalizedString", "base64Binary", "hexBinary", "anyURI", "date", "dateTime", "time", "language", "duration"} -> "String"
    [] b \in TextBuiltins -> "String"
    [] b \in {"decimal", "double"} -> "f64"
    [] b = "float" -> "f32"
    [] b \in {"integer", "int", "negativeInteger", "nonNegativeInteger", "nonPositiveInteger", "positiveInteger"} -> "i32"
    [] b = "long" -> "i64"
    [] b = "unsignedLong" -> "u64"
    [] b = "unsignedInt" -> "u32"
    [] b = "unsignedShort" -> "u16"
    [] b = "unsignedByte" -> "u8"
    [] b = "short" -> "i16"
    [] b = "boolean" -> "bool"
    [] OTHER -> "?"
Builtins == {"byte", "string", "normalizedString", "base64Binary", "hexBinary", "anyURI", "date", "dateTime", "time", "language",
             "duration", "decimal", "double", "float", "integer", "int", "negativeInteger", "nonNegativeInteger",
             "nonPositiveInteger", "positiveInteger", "long", "unsignedLong", "unsignedInt", "unsignedShort", "unsignedByte",
             "short", "boolean"} \cup TextBuiltins

---------------------------------------------------------------------------
(* files, scopes, reachability *)
Files(S) == ZRange(S.files)
FileNamed(S, nm) == CHOOSE f \in Files(S) : f.name = nm
HasFile(S, nm) == \E f \in Files(S) : f.name = nm
Items(f) == ZRange(f.items)
\* declarations on the component; for a global element with an anonymous type those on the complexType node come first
ItemXmlns(it) == (IF "inline" \in DOMAIN it /\ "xmlns" \in DOMAIN it.inline THEN it.inline.xmlns ELSE <<>>)
                 \o (IF "xmlns" \in DOMAIN it THEN it.xmlns ELSE <<>>)

\* the URI a prefix is bound to where `it` stands in file f (declarations on the component shadow the root's)
Binding(decls, p) == IF \E i \in 1..Len(decls) : decls[i][1] = p
                     THEN decls[CHOOSE i \in 1..Len(decls) : decls[i][1] = p /\ \A j \in 1..(i - 1) : decls[j][1] # p][2]
                     ELSE "?"
\* (the concretiser binds tns: on wsdl:definitions to the WSDL's own namespace)
UriOf(f, it, p) == IF Binding(ItemXmlns(it), p) # "?" THEN Binding(ItemXmlns(it), p)
                   ELSE IF Binding(f.xmlns, p) # "?" THEN Binding(f.xmlns, p)
                   ELSE IF p = "tns" /\ f.kind = "wsdl" THEN f.tns ELSE "?"

RECURSIVE ReachFrom(_, _, _)
ReachFrom(S, frontier, seen) ==
  LET next == {it.loc : it \in UNION {{x \in Items(FileNamed(S, fn)) : x.k = "import" /\ "loc" \in DOMAIN x} : fn \in frontier}}
      new == {fn \in next : HasFile(S, fn)} \ seen
  IN IF new = {} THEN seen ELSE ReachFrom(S, new, seen \cup new)
\* a further inline schema of a WSDL is written as a file record of kind "inline" naming its WSDL as `parent`: it is part
\* of that file (the concretiser splices it into wsdl:types), so it is reached with it
InlineOf(S, names) == {f.name : f \in {g \in Files(S) : g.kind = "inline" /\ g.parent \in names}}
Reach(S) == LET r == ReachFrom(S, {S.start}, {S.start}) IN ReachFrom(S, r \cup InlineOf(S, r), r \cup InlineOf(S, r))

---------------------------------------------------------------------------
(* global components and what a QName denotes (symbol spaces: types, elements) *)
\* the namespace of the components a file declares: a schema file's target namespace; for a WSDL the target namespace of
\* its inline schema (`stns`), which may differ from that of the definitions (f.tns: messages, port types, bindings)
SchemaTns(f) == IF "stns" \in DOMAIN f THEN f.stns ELSE f.tns
Comp(f, it) == [f |-> f.name, ns |-> SchemaTns(f), n |-> it.n, k |-> it.k, it |-> it]
TypesOf(S) == UNION {{Comp(f, it) : it \in {x \in Items(f) : x.k \in {"complex", "simple"}}} : f \in {g \in Files(S) : g.name \in Reach(S)}}
ElemsOf(S) == UNION {{Comp(f, it) : it \in {x \in Items(f) : x.k = "element"}} : f \in {g \in Files(S) : g.name \in Reach(S)}}

ResolveType(S, f, it, ty) ==
  LET u == UriOf(f, it, ty.p)
      c == {t \in TypesOf(S) : t.ns = u /\ t.n = ty.n}
  IN IF c = {} THEN None ELSE CHOOSE t \in c : TRUE
ResolveElem(S, f, it, q) ==
  LET u == UriOf(f, it, q.p)
      c == {e \in ElemsOf(S) : e.ns = u /\ e.n = q.n}
  IN IF c = {} THEN None ELSE CHOOSE e \in c : TRUE

---------------------------------------------------------------------------
(* occurrence *)
MaxMul(a, b) == IF a = "1" THEN b ELSE IF b = "1" THEN a ELSE IF a = "unb" \/ b = "unb" THEN "unb" ELSE "n"
Wrapper(min, max) == IF max # "1" THEN "Vec" ELSE IF min = 0 THEN "Option" ELSE "Bare"

\* the XSD builtin a member is declared with ("-" for named types and refs)
XsdOf(ty) == IF ty.k = "builtin" THEN ty.n ELSE "-"
\* the integer types of XSD without an upper / lower bound
UnboundedUp == {"integer", "nonNegativeInteger", "positiveInteger"}
UnboundedDown == {"integer", "nonPositiveInteger", "negativeInteger"}

\* what a member's value is: a builtin carrier, or the struct generated for a component
TargetOf(S, f, it, ty) ==
  IF ty.k = "builtin" THEN [k |-> "builtin", rust |-> Carrier(ty.n)]
  ELSE LET t == ResolveType(S, f, it, ty) IN
       IF t = None THEN [k |-> "dangling"] ELSE [k |-> "struct", ns |-> t.ns, n |-> t.n]

\* a ref to a global element: the element's own struct (anonymous type), the struct of its named type, or a carrier
RECURSIVE ElemTarget(_, _)
ElemTarget(S, e) ==
  IF "inline" \in DOMAIN e.it THEN [k |-> "struct", ns |-> e.ns, n |-> e.n]
  ELSE IF "ty" \in DOMAIN e.it THEN TargetOf(S, FileNamed(S, e.f), e.it, e.it.ty)
  ELSE [k |-> "builtin", rust |-> "String"]

\* the occurrence of a choice (written only when it differs from 1..1)
PMin(p) == IF "min" \in DOMAIN p THEN p.min ELSE 1
PMax(p) == IF "max" \in DOMAIN p THEN p.max ELSE "1"

\* the form of a LOCAL element: its own form attribute, else the elementFormDefault of its schema - whose default is
\* "unqualified" (the file record says `unqualified` when the schema does not set elementFormDefault="qualified").
\* An unqualified local element is in no namespace; references to global elements are always qualified.
ElForm(f, p) == IF "form" \in DOMAIN p THEN p.form ELSE IF "unqualified" \in DOMAIN f THEN "unqualified" ELSE "qualified"
ElNs(f, p) == IF ElForm(f, p) = "qualified" THEN SchemaTns(f) ELSE "unqualified"

\* members declared by a content model, flattened, with the occurrence combined along the enclosing particles
RECURSIVE Flat(_, _, _, _, _, _, _)
Flat(S, f, it, ps, pmin, pmax, inch) ==
  IF ps = <<>> THEN <<>> ELSE
  LET p == Head(ps)
      emin(m) == IF pmin = 0 \/ inch THEN 0 ELSE m
  IN (CASE p.k = "el" -> << [xml |-> p.n, attr |-> FALSE, min |-> emin(p.min), max |-> MaxMul(p.max, pmax),
                             target |-> TargetOf(S, f, it, p.ty), ns |-> ElNs(f, p), xsd |-> XsdOf(p.ty)] >>
        [] p.k = "ref" -> LET e == ResolveElem(S, f, it, p.ref) IN
                          IF e = None THEN << [xml |-> p.ref.n, attr |-> FALSE, min |-> emin(p.min), max |-> MaxMul(p.max, pmax),
                                               target |-> [k |-> "dangling"], ns |-> "?", xsd |-> "-"] >>
                          ELSE << [xml |-> e.n, attr |-> FALSE, min |-> emin(p.min), max |-> MaxMul(p.max, pmax),
                                   target |-> ElemTarget(S, e), ns |-> e.ns, xsd |-> "-"] >>
        [] p.k = "seq" -> Flat(S, f, it, p.ps, emin(p.min), MaxMul(p.max, pmax), FALSE)
        [] p.k = "choice" -> Flat(S, f, it, p.ps, IF PMin(p) = 0 THEN 0 ELSE pmin, MaxMul(PMax(p), pmax), TRUE)
        \* xs:all: every member at most once, in any order; as the whole content of a type or of an extension
        [] p.k = "all" -> Flat(S, f, it, p.ps, IF PMin(p) = 0 THEN 0 ELSE pmin, pmax, FALSE)
        [] OTHER -> <<>>)
     \o Flat(S, f, it, Tail(ps), pmin, pmax, inch)

AttrMembers(S, f, it, as) ==
  [i \in 1..Len(as) |-> [xml |-> as[i].n, attr |-> TRUE, min |-> IF as[i].use = "req" THEN 1 ELSE 0, max |-> "1",
                         target |-> TargetOf(S, f, it, as[i].ty), ns |-> "unqualified", xsd |-> XsdOf(as[i].ty)]]

\* body = a complexType item or the inline type of a global element
OwnMembers(S, f, it, body) == Flat(S, f, it, body.content, 1, "1", FALSE) \o AttrMembers(S, f, it, body.attrs)

HasBase(body) == "content" \in DOMAIN body /\ "base" \in DOMAIN body /\ body.base # None

RECURSIVE Members(_, _, _, _, _)
Members(S, f, it, body, fuel) ==
  IF HasBase(body) /\ fuel > 0
  THEN LET b == ResolveType(S, f, it, body.base) IN
       (IF b = None \/ b.k # "complex" THEN <<>> ELSE Members(S, FileNamed(S, b.f), b.it, b.it, fuel - 1))
       \o OwnMembers(S, f, it, body)
  ELSE OwnMembers(S, f, it, body)

\* the expected field list of the struct generated for a complex body
ExpFields(S, f, it, body) ==
  LET ms == Members(S, f, it, body, 8) IN
  [i \in 1..Len(ms) |-> [xml |-> ms[i].xml, attr |-> ms[i].attr, w |-> Wrapper(ms[i].min, ms[i].max),
                         target |-> ms[i].target, ns |-> ms[i].ns, xsd |-> ms[i].xsd]]

---------------------------------------------------------------------------
(* restricted simple types: the facets that apply to a value (own and inherited through derivation) and one     *)
(* lexical value inside / outside them (the values the drivers use; integers for ranges, k...k for lengths)      *)
RECURSIVE EffFacets(_, _, _)
EffFacets(S, c, fuel) ==
  IF c.k # "simple" \/ fuel = 0 THEN <<>>
  ELSE LET b == IF c.it.base.k = "named" THEN ResolveType(S, FileNamed(S, c.f), c.it, c.it.base) ELSE None
       IN (IF b = None THEN <<>> ELSE EffFacets(S, b, fuel - 1)) \o c.it.facets
FacetVals(fs, names) == {fs[i][2] : i \in {i \in 1..Len(fs) : fs[i][1] \in names}}
SetMax(X) == CHOOSE x \in X : \A y \in X : y <= x
SetMin(X) == CHOOSE x \in X : \A y \in X : x <= y
RECURSIVE Ks(_)
Ks(n) == IF n <= 0 THEN "" ELSE "k" \o Ks(n - 1)
Enums(fs) == [i \in 1..Cardinality({i \in 1..Len(fs) : fs[i][1] = "enum"}) |->
                fs[CHOOSE j \in 1..Len(fs) : fs[j][1] = "enum" /\ Cardinality({k \in 1..j : fs[k][1] = "enum"}) = i][2]]
\* upper / lower bound of the integer range (exclusive bounds moved in by one), as sets (empty = unbounded)
\* "maxIncPlus" / "minLenPlus": the same facets with the numeral written with an explicit plus sign (+14)
UpperB(fs) == FacetVals(fs, {"maxInc", "maxIncPlus"}) \cup {v - 1 : v \in FacetVals(fs, {"maxExc"})}
LowerB(fs) == FacetVals(fs, {"minInc"}) \cup {v + 1 : v \in FacetVals(fs, {"minExc"})}
MaxLenB(fs) == FacetVals(fs, {"maxLen", "len"})
MinLenB(fs) == FacetVals(fs, {"minLen", "minLenPlus", "len"})
HasFacets(fs) == Len(fs) > 0
ValidText(fs) ==
  IF Len(Enums(fs)) > 0 THEN Enums(fs)[1]
  ELSE IF UpperB(fs) # {} THEN ToString(SetMin(UpperB(fs)))
  ELSE IF LowerB(fs) # {} THEN ToString(SetMax(LowerB(fs)))
  ELSE IF MaxLenB(fs) # {} THEN Ks(SetMin(MaxLenB(fs)))
  ELSE IF MinLenB(fs) # {} THEN Ks(SetMax(MinLenB(fs)) + 3)
  ELSE "?"
InvalidText(fs) ==
  IF Len(Enums(fs)) > 0 THEN "zz-not-in-enumeration"
  ELSE IF UpperB(fs) # {} THEN ToString(SetMin(UpperB(fs)) + 1)
  ELSE IF LowerB(fs) # {} THEN ToString(SetMax(LowerB(fs)) - 1)
  ELSE IF MaxLenB(fs) # {} THEN Ks(SetMin(MaxLenB(fs)) + 1)
  ELSE IF MinLenB(fs) # {} /\ SetMax(MinLenB(fs)) > 0 THEN Ks(SetMax(MinLenB(fs)) - 1)
  ELSE "?"

\* one invalid value per facet that can be broken on its own (too long, too short, above, below, not enumerated)
InvalidTexts(fs) ==
  IF Len(Enums(fs)) > 0 THEN {"zz-not-in-enumeration"}
  ELSE (IF UpperB(fs) # {} THEN {ToString(SetMin(UpperB(fs)) + 1)} ELSE {})
       \cup (IF LowerB(fs) # {} THEN {ToString(SetMax(LowerB(fs)) - 1)} ELSE {})
       \cup (IF MaxLenB(fs) # {} THEN {Ks(SetMin(MaxLenB(fs)) + 1)} ELSE {})
       \cup (IF MinLenB(fs) # {} /\ SetMax(MinLenB(fs)) > 0 THEN {Ks(SetMax(MinLenB(fs)) - 1)} ELSE {})

\* components that must have a struct: named complex types, named simple types, anonymous-typed global elements
StructComps(S) == {c \in TypesOf(S) : TRUE} \cup {e \in ElemsOf(S) : "inline" \in DOMAIN e.it}
BodyOf(c) == IF c.k = "element" THEN c.it.inline ELSE c.it

---------------------------------------------------------------------------
(* By-value containment: the struct of a contains the struct of b when a has a member of b's type that is not      *)
(* repeated (T or Option<T>; the items of a Vec live on the heap).  A cycle of such edges is a type that contains  *)
(* itself - legal in XSD (a list node with an optional `next`), impossible as a plain Rust struct.                  *)
StructOfTarget(S, t) == {x \in StructComps(S) : t.k = "struct" /\ x.ns = t.ns /\ x.n = t.n}
Contains(S, a) ==
  IF a.k = "simple" THEN {}
  ELSE LET ms == ExpFields(S, FileNamed(S, a.f), a.it, BodyOf(a)) IN
       UNION {StructOfTarget(S, ms[i].target) : i \in {j \in 1..Len(ms) : ms[j].w # "Vec"}}
RECURSIVE ContainsN(_, _, _)
ContainsN(S, X, n) == IF n = 0 THEN X ELSE ContainsN(S, X \cup UNION {Contains(S, x) : x \in X}, n - 1)
ByValueCycle(S) == \E a \in StructComps(S) : a \in ContainsN(S, Contains(S, a), Cardinality(StructComps(S)))

(* XSD keeps elements and attributes in separate symbol spaces: one type may declare an element and an attribute of  *)
(* the same name.  A Rust struct has one space of field names.                                                         *)
MemberClash(S) == \E c \in StructComps(S) : c.k # "simple" /\
   LET ms == ExpFields(S, FileNamed(S, c.f), c.it, BodyOf(c)) IN \E i, j \in 1..Len(ms) : i < j /\ ms[i].xml = ms[j].xml
=======================================================================
