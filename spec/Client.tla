--------------------------- MODULE Client ---------------------------
(***************************************************************************)
(* L5: one call of a generated client method against a scripted server.     *)
(*                                                                          *)
(* Client (helpers_content.rs send_soap_request_using_client):              *)
(*   check    req.check_restrictions(None)        -> Restriction error      *)
(*   ser      yaserde::ser::to_string(&req)       -> Yaserde error          *)
(*   connect  TCP connect                         -> Http error (refused)   *)
(*   send     POST url, body, Basic auth iff credentials                    *)
(*   status   error_for_status_ref                -> Http error on 4xx/5xx  *)
(*   body     response.text()                     -> Http error (truncated) *)
(*   parse    yaserde::de::from_str               -> Yaserde error          *)
(*   ret      Ok(response envelope)                                         *)
(* Server script: "refuse" | "close_before" | "close_after" | "truncate" |  *)
(*   "overlong" (complete envelope, Content-Length larger, then close) |    *)
(*   [status, body] with body in {"exact", "other_prefixes", "empty",       *)
(*   "non_xml", "fault"}.                                                   *)
(* Deviations: none known; `Dev` can switch on "no_status_check" (a 4xx/5xx *)
(* body that happens to parse is returned as a value) and "retry" (a second *)
(* POST after a failure) to show that the invariants are not vacuous.       *)
(***************************************************************************)
EXTENDS ClientFn

CONSTANT Dev

VARIABLES violates,  \* the request breaks a facet
          creds,     \* credentials configured: "none" | "user" | "empty_user" (a password only, e.g. a token)
          script,    \* the server's behaviour
          pc, conns, requests, result
vars == <<violates, creds, script, pc, conns, requests, result>>

Init == /\ violates \in BOOLEAN /\ creds \in {"none", "user", "empty_user"} /\ script \in Scripts
        /\ pc = "check" /\ conns = 0 /\ requests = <<>> /\ result = "none"

Check == /\ pc = "check"
         /\ IF violates THEN pc' = "ret" /\ result' = "err_restriction" ELSE pc' = "connect" /\ UNCHANGED result
         /\ UNCHANGED <<violates, creds, script, conns, requests>>
Connect == /\ pc = "connect"
           /\ IF script.k = "refuse" THEN pc' = "ret" /\ result' = "err_http" /\ UNCHANGED conns
              ELSE pc' = "send" /\ conns' = conns + 1 /\ UNCHANGED result
           /\ UNCHANGED <<violates, creds, script, requests>>
Send == /\ pc = "send"
        /\ requests' = Append(requests, [method |-> "POST", auth |-> (creds # "none"), body |-> "ser(req)"])
        /\ IF script.k = "close_before" THEN pc' = "ret" /\ result' = "err_http" ELSE pc' = "status" /\ UNCHANGED result
        /\ UNCHANGED <<violates, creds, script, conns>>
Status == /\ pc = "status"
          /\ LET st == IF script.k = "reply" THEN script.status ELSE 200 IN
             IF st >= 400 /\ "no_status_check" \notin Dev THEN pc' = "ret" /\ result' = "err_http" ELSE pc' = "body" /\ UNCHANGED result
          /\ UNCHANGED <<violates, creds, script, conns, requests>>
Body == /\ pc = "body"
        /\ IF script.k \in {"close_after", "truncate", "overlong"} THEN pc' = "ret" /\ result' = "err_http" ELSE pc' = "parse" /\ UNCHANGED result
        /\ UNCHANGED <<violates, creds, script, conns, requests>>
Parse == /\ pc = "parse"
         /\ pc' = "ret"
         /\ result' = IF Parses(script.body) THEN "ok" ELSE "err_yaserde"
         /\ UNCHANGED <<violates, creds, script, conns, requests>>
Retry == /\ "retry" \in Dev /\ pc = "ret" /\ result = "err_http" /\ Len(requests) = 1
         /\ requests' = Append(requests, requests[1]) /\ UNCHANGED <<violates, creds, script, pc, conns, result>>
Next == Check \/ Connect \/ Send \/ Status \/ Body \/ Parse \/ Retry
Spec == Init /\ [][Next]_vars /\ WF_vars(Next)

\* C16 / C07
AtMostOnePost == Len(requests) <= 1
OkOnlyIf == (pc = "ret" /\ result = "ok") =>
               /\ Len(requests) = 1 /\ requests[1].method = "POST"
               /\ script.k = "reply" /\ script.status \in 200..299 /\ Parses(script.body)
AuthIffCreds == \A i \in 1..Len(requests) : requests[i].auth = (creds # "none")
NothingSentOnViolation == (pc = "ret" /\ violates) => (conns = 0 /\ requests = <<>> /\ result = "err_restriction")
FailuresAreErrors == (pc = "ret" /\ ~(script.k = "reply" /\ script.status \in 200..299 /\ Parses(script.body)) /\ ~violates) => result \in {"err_http", "err_yaserde"}
Returns == <>(pc = "ret")

=======================================================================
