--------------------------- MODULE FacetsProof ---------------------------
(***************************************************************************)
(* TLAPS: the numeric part of C06 for ALL integers, not only the abstract   *)
(* points TLC enumerates: with no deviation the comparisons of the helper   *)
(* (written as in the code: negated strict / non-strict tests that return   *)
(* an error) accept a value exactly when it satisfies the range facets.     *)
(* A facet is a set of integers: {} = absent, {b} = present with bound b.   *)
(* (Same definitions as NumSat / NumCheck of spec/Facets.tla with D = {}.)  *)
(***************************************************************************)
EXTENDS Integers, TLAPS

NumSat(v, minInc, maxInc, minExc, maxExc) ==
  /\ \A b \in minInc : v >= b
  /\ \A b \in maxInc : v <= b
  /\ \A b \in minExc : v > b
  /\ \A b \in maxExc : v < b

\* check_range of helpers_content.rs: an error is returned when ...
NumCheck(v, minInc, maxInc, minExc, maxExc) ==
  /\ \A b \in minInc : ~(v < b)
  /\ \A b \in maxInc : ~(b < v)
  /\ \A b \in minExc : ~(v <= b)
  /\ \A b \in maxExc : ~(b <= v)

\* the code as it was built (deviation D20): wrong exactly on the bound
NumCheckD20(v, minInc, maxInc, minExc, maxExc) ==
  /\ \A b \in minInc : ~(v <= b)
  /\ \A b \in maxInc : ~(b <= v)
  /\ \A b \in minExc : ~(v < b)
  /\ \A b \in maxExc : ~(b < v)

THEOREM CheckIffSat ==
  \A v \in Int : \A minInc, maxInc, minExc, maxExc \in SUBSET Int :
     NumCheck(v, minInc, maxInc, minExc, maxExc) <=> NumSat(v, minInc, maxInc, minExc, maxExc)
  BY DEF NumCheck, NumSat

\* and the as-built comparisons are NOT equivalent: a value on an inclusive lower bound is rejected
THEOREM D20Differs ==
  \E v \in Int : \E minInc \in SUBSET Int :
     NumSat(v, minInc, {}, {}, {}) /\ ~NumCheckD20(v, minInc, {}, {}, {})
  <1> WITNESS 5 \in Int
  <1> WITNESS {5} \in SUBSET Int
  <1> QED BY DEF NumSat, NumCheckD20
=======================================================================
