--------------------------- MODULE Registry ---------------------------
(***************************************************************************)
(* L2: the namespace registry of a RustDocument (doc.rs) and what happens   *)
(* to it when documents are merged after an xs:import.                      *)
(*                                                                          *)
(* A namespace record is [uri, base, n]: `base` is the abbreviation base    *)
(* computed from the URI (at most three characters of the last path         *)
(* segment after the last dash, dots removed, lower-cased - given by the    *)
(* vocabulary), n the collision suffix (0 = none); its label base ++ n is   *)
(* both the XML prefix and, as mod_<label>, the Rust module.                *)
(* A document is [lookup, nss, tns, cur]:                                   *)
(*   lookup  Seq(<<source prefix, ns>>)   HashMap<String, Rc<Namespace>>    *)
(*   nss     Seq(ns)                      namespaces                        *)
(*   tns     Seq(ns)                      target_namespaces (= modules)     *)
(*   cur     ns or None                   current_target_namespace          *)
(*                                                                          *)
(* Operators, one per function of doc.rs:                                   *)
(*   AddRef     add_namespace_reference                                     *)
(*   SwitchTns  switch_to_target_namespace                                  *)
(*   Merge      RustDocument::extend                                        *)
(*   Seed       (repaired design) a document starts from the namespaces     *)
(*              its importer already knows                                  *)
(* Deviations:                                                              *)
(*   "D06"  a new document starts with an empty registry, so the first free *)
(*          suffix is only unique within one document: after a merge two    *)
(*          URIs can share a label                                          *)
(*   "D06b" the label of a target namespace is made unique among the target *)
(*          namespaces only, not among all namespaces of the document       *)
(*   "D07"  on a merge the imported prefix table overwrites the importer's  *)
(*   "D40"  switch_to_target_namespace does nothing for a namespace that is  *)
(*          a target namespace already (the components of a second inline   *)
(*          schema, or what follows an inline schema, land in the wrong one) *)
(*   "D38"  a prefix that is in the table is never bound anew: a component  *)
(*          that declares it for another namespace (XML scoping) is ignored *)
(***************************************************************************)
EXTENDS Naturals, Sequences, FiniteSets, TLC

None == [none |-> TRUE]
ZRange(s) == {s[i] : i \in 1..Len(s)}

Ns(u, base, n) == [uri |-> u, base |-> base, n |-> n]
Label(x) == IF x.n = 0 THEN x.base ELSE x.base \o ToString(x.n)
EmptyDoc == [lookup |-> <<>>, nss |-> <<>>, tns |-> <<>>, cur |-> None]

\* make_abbreviated_namespace: first free suffix with respect to `list`
FreeN(base, list) ==
  LET used == {x.n : x \in {y \in ZRange(list) : y.base = base}}
  IN CHOOSE k \in 0..(Len(list) + 1) : k \notin used /\ \A j \in 0..(k - 1) : j \in used

HasPrefix(d, p) == \E i \in 1..Len(d.lookup) : d.lookup[i][1] = p
LookupOf(d, p) == d.lookup[CHOOSE i \in 1..Len(d.lookup) : d.lookup[i][1] = p][2]
Known(list, u) == \E x \in ZRange(list) : x.uri = u
Get(list, u) == list[CHOOSE i \in 1..Len(list) : list[i].uri = u /\ \A j \in 1..(i - 1) : list[j].uri # u]

\* add_namespace_reference(prefix, uri): outcome and new document.
\* collect_namespaces_on_node hands in every binding that is IN SCOPE where a component stands, so a prefix that the
\* table binds to another namespace (a declaration on a component of this or of an imported file) is bound anew:
\* the nearest declaration counts.  "D38" (as built): a prefix that is in the table is never touched again.
RebindOf(D) == "D38" \notin D
AddRefOutcomeD(d, p, u, wk, D) ==
  IF p = "" \/ u = "" THEN "empty"
  ELSE IF wk THEN "well_known"
  ELSE IF HasPrefix(d, p) /\ (~RebindOf(D) \/ LookupOf(d, p).uri = u) THEN "prefix_taken"
  ELSE IF Known(d.nss, u) THEN "alias"
  ELSE "new"
Without(lk, p) == SelectSeq(lk, LAMBDA e : e[1] # p)
AddRefD(d, p, u, base, wk, D) ==
  LET o == AddRefOutcomeD(d, p, u, wk, D) IN
  IF o \in {"empty", "well_known", "prefix_taken"} THEN d
  ELSE IF o = "alias" THEN [d EXCEPT !.lookup = Append(Without(@, p), <<p, Get(d.nss, u)>>)]
  ELSE LET ns == Ns(u, base, FreeN(base, d.nss))
       IN [d EXCEPT !.lookup = Append(Without(@, p), <<p, ns>>), !.nss = Append(@, ns)]
\* the record the prefix is bound to afterwards (for comparing with the hook's `abbr`)
AddRefNsD(d, p, u, base, wk, D) ==
  LET o == AddRefOutcomeD(d, p, u, wk, D) IN
  IF o \in {"empty", "well_known"} THEN None
  ELSE IF o = "prefix_taken" THEN LookupOf(d, p)
  ELSE LookupOf(AddRefD(d, p, u, base, wk, D), p)
AddRefOutcome(d, p, u, wk) == AddRefOutcomeD(d, p, u, wk, {})
AddRef(d, p, u, base, wk) == AddRefD(d, p, u, base, wk, {})
AddRefNs(d, p, u, base, wk) == AddRefNsD(d, p, u, base, wk, {})
\* (C09) a prefixed name used where component-level declarations are in scope resolves through the table as it
\* stands after those declarations have been handed in
ResolvesTo(d, p) == IF HasPrefix(d, p) THEN LookupOf(d, p).uri ELSE "?"

SwitchOutcome(d, u) == IF Known(d.tns, u) THEN "already" ELSE IF Known(d.nss, u) THEN "reuse" ELSE "new"
SwitchTns(d, u, base, D) ==
  LET o == SwitchOutcome(d, u) IN
  \* "D40" (as built): switching to a namespace that is a target namespace already left the current one as it was
  IF o = "already" THEN (IF "D40" \in D THEN d ELSE [d EXCEPT !.cur = Get(d.tns, u)])
  ELSE LET ns == IF o = "reuse" THEN Get(d.nss, u)
                 ELSE Ns(u, base, FreeN(base, IF "D06b" \in D THEN d.tns ELSE d.nss))
       IN [d EXCEPT !.tns = Append(@, ns), !.nss = Append(@, ns), !.cur = ns]

RECURSIVE ExtendNoDup(_, _)
ExtendNoDup(a, b) == IF b = <<>> THEN a ELSE ExtendNoDup(IF b[1] \in ZRange(a) THEN a ELSE Append(a, b[1]), Tail(b))
\* HashMap::extend: the imported binding wins (D07) / the importer's binding is kept (repaired)
MergeLookup(l1, l2, D) ==
  IF "D07" \in D
  THEN SelectSeq(l1, LAMBDA e : ~\E i \in 1..Len(l2) : l2[i][1] = e[1]) \o l2
  ELSE l1 \o SelectSeq(l2, LAMBDA e : ~\E i \in 1..Len(l1) : l1[i][1] = e[1])
Merge(d, o, D) == [d EXCEPT !.lookup = MergeLookup(@, o.lookup, D), !.nss = ExtendNoDup(@, o.nss), !.tns = ExtendNoDup(@, o.tns)]

\* a document created for an imported file: empty as built, seeded with the importer's namespaces when repaired
Seed(parent, D) == IF "D06" \in D THEN EmptyDoc ELSE [EmptyDoc EXCEPT !.nss = parent.nss]

---------------------------------------------------------------------------
(* C10 on a registry (the final document of a run) *)
PrefixInjective(d) == \A a, b \in ZRange(d.nss) : Label(a) = Label(b) => a.uri = b.uri
OnePrefixPerUri(d) == \A a, b \in ZRange(d.nss) : a.uri = b.uri => Label(a) = Label(b)
ModuleInjective(d) == \A i, j \in 1..Len(d.tns) : i # j => (Label(d.tns[i]) # Label(d.tns[j]) /\ d.tns[i].uri # d.tns[j].uri)
RegistryOK(d) == PrefixInjective(d) /\ OnePrefixPerUri(d) /\ ModuleInjective(d)
=======================================================================
