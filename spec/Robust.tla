--------------------------- MODULE Robust ---------------------------
(***************************************************************************)
(* L1-L3 outcome protocol of one generation (C13): read_xml on a file set,  *)
(* then write_xml on the returned document.  The input is abstracted to the *)
(* set `feat` of features that matter for robustness; every place in the    *)
(* code that could leave the protocol (panic, unbounded recursion,          *)
(* exponential work) is an action guarded by the feature that triggers it   *)
(* and by the deviation that names the site:                                *)
(*   "D24a" enum_no_value   restrictions.rs: unwrap of the value attribute  *)
(*   "D24b" start_unknown   reader.rs FilesToRead::inner: unwrap            *)
(*   "D24c" self_reference  doc.rs: a component that refers to itself is    *)
(*                          converted without end (stack overflow)          *)
(*   "D24d" ns_255          doc.rs: assert on the 255th colliding namespace *)
(*   "D24e" ref_ladder      doc.rs: forward references re-convert their     *)
(*                          target, cost 2^depth (time bound exceeded)      *)
(*   "D03"  import_cycle    reader.rs: see Imports                          *)
(* With Dev = {} none of them is enabled: the protocol can only end in      *)
(* {doc, err} x {ok, err}.                                                  *)
(***************************************************************************)
EXTENDS Naturals, FiniteSets, TLC

CONSTANTS Dev, Features
VARIABLES feat, pc, rd, wr
vars == <<feat, pc, rd, wr>>

Site == [enum_no_value |-> "D24a", start_unknown |-> "D24b", self_reference |-> "D24c", ns_255 |-> "D24d",
         ref_ladder |-> "D24e", import_cycle |-> "D03"]
Bad == [enum_no_value |-> "panic", start_unknown |-> "panic", self_reference |-> "overflow", ns_255 |-> "panic",
        ref_ladder |-> "timeout", import_cycle |-> "overflow"]

Init == feat \in SUBSET Features /\ pc = "idle" /\ rd = "none" /\ wr = "none"
StartRead == pc = "idle" /\ pc' = "reading" /\ UNCHANGED <<feat, rd, wr>>
ReadReturns(r) == pc = "reading" /\ r \in {"doc", "err"} /\ rd' = r /\ pc' = (IF r = "doc" THEN "read_done" ELSE "done") /\ UNCHANGED <<feat, wr>>
ReadBreaks(f) == /\ pc = "reading" /\ f \in feat /\ Site[f] \in Dev
                 /\ rd' = Bad[f] /\ pc' = "done" /\ UNCHANGED <<feat, wr>>
StartWrite == pc = "read_done" /\ pc' = "writing" /\ UNCHANGED <<feat, rd, wr>>
WriteReturns(r) == pc = "writing" /\ r \in {"ok", "err"} /\ wr' = r /\ pc' = "done" /\ UNCHANGED <<feat, rd>>
Next == StartRead \/ (\E r \in {"doc", "err"} : ReadReturns(r)) \/ (\E f \in Features : ReadBreaks(f))
        \/ StartWrite \/ (\E r \in {"ok", "err"} : WriteReturns(r))
Spec == Init /\ [][Next]_vars /\ WF_vars(Next)

\* Which WriterError a class of malformed input yields (error.rs).  Not a property of the list - any Err is
\* acceptable to C13 - but part of the system's behaviour: observed variants are matched against it (drift).
ErrorOf == [import_without_namespace |-> "NamespaceMissing", import_of_missing_file |-> "ImportNotFound",
            types_without_schema |-> "SchemaNotFound", unknown_message |-> "MessageNotFound",
            encoded_body |-> "UnsupportedEncoding", invalid_address |-> "InvalidUrl", invalid_soap_action |-> "InvalidUrl",
            part_without_element |-> "AttributeMissing", binding_without_type |-> "AttributeMissing",
            unknown_port_type |-> "NodeNotFound", unknown_binding |-> "NodeNotFound", unknown_part_element |-> "NodeNotFound",
            not_xml |-> "Message", start_unknown |-> "ImportNotFound"]

\* C13
Robust == rd \in {"none", "doc", "err"} /\ wr \in {"none", "ok", "err"}
Terminates == <>(pc = "done")
\* what an observed outcome may be explained by
Explains(f, outcome) == Site[f] \in Dev /\ Bad[f] = outcome
=======================================================================
