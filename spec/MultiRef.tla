--------------------------- MODULE MultiRef ---------------------------
(***************************************************************************)
(* L6 (C19): MultiRef<T> of helpers_content.rs as a wrapper node in a value *)
(* tree, and the six channels through which a value is observed:            *)
(*   ser     YaSerialize::serialize            (elements, text)             *)
(*   attrs   YaSerialize::serialize_attributes (attributes hoisted by the   *)
(*           parent, used for `flatten`)                                    *)
(*   de      YaDeserialize::deserialize                                     *)
(*   check   CheckRestrictions::check_restrictions                          *)
(*   debug   Debug::fmt                                                     *)
(*   default Default::default                                               *)
(* plus Clone, which must share (Arc) rather than copy.                     *)
(* A value is [k |-> "leaf", text, ok] | [k |-> "node", attrs, kids] |      *)
(* [k |-> "wrap", inner].  Forward(ch) says whether the wrapper forwards     *)
(* channel ch to its inner value (as built: all of them); a channel that is *)
(* not forwarded falls back to the trait's default behaviour.               *)
(***************************************************************************)
EXTENDS Naturals, Sequences, FiniteSets, TLC

CONSTANT NotForwarded    \* set of channels the wrapper does NOT forward (as built: {})

Channels == {"ser", "ser_state", "attrs", "attrs_ns", "de", "check", "check_memo", "debug", "default", "clone_shares"}
Forward(ch) == ch \notin NotForwarded

RECURSIVE Erase(_)
Erase(v) == CASE v.k = "wrap" -> Erase(v.inner)
              [] v.k = "node" -> [v EXCEPT !.kids = [i \in 1..Len(v.kids) |-> Erase(v.kids[i])]]
              [] OTHER -> v

\* observation of a value through a channel (abstract: a tree without wrappers, or a verdict)
RECURSIVE Ser(_)
Ser(v) == CASE v.k = "wrap" -> IF Forward("ser") THEN Ser(v.inner) ELSE [k |-> "nothing"]
            [] v.k = "node" -> [k |-> "node", attrs |-> v.attrs, kids |-> [i \in 1..Len(v.kids) |-> Ser(v.kids[i])]]
            [] OTHER -> [k |-> "leaf", text |-> v.text]
RECURSIVE Check(_)
Check(v) == CASE v.k = "wrap" -> IF Forward("check") THEN Check(v.inner) ELSE TRUE     \* the trait's default accepts
              [] v.k = "node" -> \A i \in 1..Len(v.kids) : Check(v.kids[i])
              [] OTHER -> v.ok
\* The verdict of check_restrictions depends on the value AND on the restrictions handed down by the caller
\* (r = NoBound or an upper bound on the length of every text leaf).  A value is checked many times in its life
\* (each request that refers to it, each restricted type it sits in): a HISTORY is a sequence of handed-down
\* restrictions, its observation the sequence of verdicts.  "check_memo" \in NotForwarded models a wrapper that
\* remembers a passed check instead of forwarding every call (state that survives between calls).
NoBound == 99      \* stands for `None` (TLC cannot put a string and numbers into one set)
CtxOk(v, r) == r = NoBound \/ Len(v.text) <= r
RECURSIVE CheckR(_, _)
CheckR(v, r) == CASE v.k = "wrap" -> IF Forward("check") THEN CheckR(v.inner, r) ELSE TRUE
                  [] v.k = "node" -> \A i \in 1..Len(v.kids) : CheckR(v.kids[i], r)
                  [] OTHER -> v.ok /\ CtxOk(v, r)
\* the verdicts of a root value over a history; `passed` = a wrapper at the root has seen a successful check
RECURSIVE Hist(_, _, _)
Hist(v, rs, passed) ==
  IF rs = <<>> THEN <<>>
  ELSE LET verdict == IF v.k = "wrap" /\ ~Forward("check_memo") /\ passed THEN TRUE ELSE CheckR(v, Head(rs))
       IN <<verdict>> \o Hist(v, Tail(rs), passed \/ verdict)
Contexts == {NoBound, 0, 2, 5}
Histories == {<<a>> : a \in Contexts} \cup {<<a, b>> : a, b \in Contexts}
HistTransparent(v) == \A rs \in Histories : Hist(v, rs, FALSE) = Hist(Erase(v), rs, FALSE)

HoistedAttrs(v) == CASE v.k = "wrap" -> IF Forward("attrs") THEN (IF v.inner.k = "node" THEN v.inner.attrs ELSE {}) ELSE {}
                     [] v.k = "node" -> v.attrs
                     [] OTHER -> {}

\* Serialisation has a history too: an attempt into a sink that fails part-way, then another one.  The wrapper keeps
\* nothing between calls, so the second attempt yields what a first one would ("ser_state" \in NotForwarded models a
\* wrapper that remembers an attempt that did not finish and refuses the next one).
SerAgain(v) == IF v.k = "wrap" /\ ~Forward("ser_state") THEN [k |-> "refused"] ELSE Ser(v)
SerHistTransparent(v) == SerAgain(v) = SerAgain(Erase(v))

\* serialize_attributes returns the attributes AND the prefix bindings of the value (a node may be of another namespace
\* than the struct it is flattened into: v.nsdecl = the prefixes its own type declares)
NsDecl(v) == IF "nsdecl" \in DOMAIN v THEN v.nsdecl ELSE {}
HoistedNs(v) == CASE v.k = "wrap" -> IF Forward("attrs") /\ Forward("attrs_ns") THEN (IF v.inner.k = "node" THEN NsDecl(v.inner) ELSE {}) ELSE {}
                  [] v.k = "node" -> NsDecl(v)
                  [] OTHER -> {}

\* C19: wrapping changes nothing observable
Transparent(v) == /\ Ser(v) = Ser(Erase(v))
                  /\ Check(v) = Check(Erase(v))
                  /\ HoistedAttrs(v) = HoistedAttrs(Erase(v))
                  /\ HoistedNs(v) = HoistedNs(Erase(v))
                  /\ HistTransparent(v)
                  /\ SerHistTransparent(v)
=======================================================================
