--------------------------- MODULE MultiRef ---------------------------
(***************************************************************************)
(* L6 (C19): MultiRef<T> of helpers_content.rs as a wrapper node in a value *)
(* tree, and the six channels through which a value is observed:            *)
(*   ser     YaSerialize::serialize            (elements, text)             *)
(*   attrs   YaSerialize::serialize_attributes (attributes hoisted by the   *)
(*           parent, used for `flatten`)                                    *)
(*   de      YaDeserialize::deserialize                                     *)
(*   check   CheckRestrictions::check_restrictions                          *)
(*   debug   Debug::fmt                                                     *)
(*   default Default::default                                               *)
(* plus Clone, which must share (Arc) rather than copy.                     *)
(* A value is [k |-> "leaf", text, ok] | [k |-> "node", attrs, kids] |      *)
(* [k |-> "wrap", inner].  Forward(ch) says whether the wrapper forwards     *)
(* channel ch to its inner value (as built: all of them); a channel that is *)
(* not forwarded falls back to the trait's default behaviour.               *)
(***************************************************************************)
EXTENDS Naturals, Sequences, FiniteSets, TLC

CONSTANT NotForwarded    \* set of channels the wrapper does NOT forward (as built: {})

Channels == {"ser", "attrs", "de", "check", "debug", "default", "clone_shares"}
Forward(ch) == ch \notin NotForwarded

RECURSIVE Erase(_)
Erase(v) == CASE v.k = "wrap" -> Erase(v.inner)
              [] v.k = "node" -> [v EXCEPT !.kids = [i \in 1..Len(v.kids) |-> Erase(v.kids[i])]]
              [] OTHER -> v

\* observation of a value through a channel (abstract: a tree without wrappers, or a verdict)
RECURSIVE Ser(_)
Ser(v) == CASE v.k = "wrap" -> IF Forward("ser") THEN Ser(v.inner) ELSE [k |-> "nothing"]
            [] v.k = "node" -> [k |-> "node", attrs |-> v.attrs, kids |-> [i \in 1..Len(v.kids) |-> Ser(v.kids[i])]]
            [] OTHER -> [k |-> "leaf", text |-> v.text]
RECURSIVE Check(_)
Check(v) == CASE v.k = "wrap" -> IF Forward("check") THEN Check(v.inner) ELSE TRUE     \* the trait's default accepts
              [] v.k = "node" -> \A i \in 1..Len(v.kids) : Check(v.kids[i])
              [] OTHER -> v.ok
HoistedAttrs(v) == CASE v.k = "wrap" -> IF Forward("attrs") THEN (IF v.inner.k = "node" THEN v.inner.attrs ELSE {}) ELSE {}
                     [] v.k = "node" -> v.attrs
                     [] OTHER -> {}

\* C19: wrapping changes nothing observable
Transparent(v) == /\ Ser(v) = Ser(Erase(v))
                  /\ Check(v) = Check(Erase(v))
                  /\ HoistedAttrs(v) = HoistedAttrs(Erase(v))
=======================================================================
