--------------------------- MODULE MC_C08 ---------------------------
(***************************************************************************)
(* C08 on the model: extension chains of depth 1..MaxDepth.  Level 0 is the *)
(* root base; level i extends level i-1.  Each level's own content is one   *)
(* of: empty, sequence, choice, attributes only, sequence + attributes.     *)
(* The root base lives in the same file or in an imported file of another   *)
(* namespace; the types are declared base-first or derived-first; and a     *)
(* global element with the NAME OF THE ROOT BASE may stand before or after  *)
(* it (the everyday pair <element name="X" type="t:X"/> + complexType X).   *)
(* Invariant: operational field list = declarative members (base first).    *)
(***************************************************************************)
EXTENDS Build, Json

CONSTANTS Dev, MaxDepth, Kinds
VARIABLE c      \* [depth, own : Seq(kind), order, loc, homonym]
vars == <<c>>

B(n) == [k |-> "builtin", n |-> n]
T(p, n) == [k |-> "named", p |-> p, n |-> n]
El(n, ty, min, max) == [k |-> "el", n |-> n, ty |-> ty, min |-> min, max |-> max]
SeqP(min, max, ps) == [k |-> "seq", min |-> min, max |-> max, ps |-> ps]
ChoiceP(ps) == [k |-> "choice", ps |-> ps]
At(n, ty, use) == [k |-> "attr", n |-> n, ty |-> ty, use |-> use]

TypeName == <<"AlphaType", "BravoType", "CharlieType", "DeltaType">>
Item == <<"alphaItem", "bravoItem", "charlieItem", "deltaItem">>
Count == <<"alphaCount", "bravoCount", "charlieCount", "deltaCount">>
Left == <<"alphaLeft", "bravoLeft", "charlieLeft", "deltaLeft">>
Right == <<"alphaRight", "bravoRight", "charlieRight", "deltaRight">>
Key == <<"alphaKey", "bravoKey", "charlieKey", "deltaKey">>
Tag == <<"alphaTag", "bravoTag", "charlieTag", "deltaTag">>

SeqOf(i) == << SeqP(1, "1", << El(Item[i], B("string"), 1, "1"), El(Count[i], B("int"), 0, "unb") >>) >>
ChoiceOf(i) == << SeqP(1, "1", << ChoiceP(<< El(Left[i], B("string"), 1, "1"), El(Right[i], B("long"), 1, "1") >>) >>) >>
AttrsOf(i) == << At(Key[i], B("string"), "req"), At(Tag[i], B("int"), "opt") >>
\* the choice is the whole content (of the type, or of the extension), and may repeat
TopChoiceOf(i) == << [k |-> "choice", min |-> 0, max |-> "unb", ps |-> << El(Left[i], B("string"), 1, "1"), El(Right[i], B("long"), 1, "1") >>] >>
AllOf(i) == << [k |-> "all", min |-> 1, max |-> "1", ps |-> << El(Left[i], B("string"), 1, "1"), El(Right[i], B("long"), 0, "1") >>] >>
ContentOf(kind, i) == CASE kind = "seq" -> SeqOf(i) [] kind = "seqattrs" -> SeqOf(i) [] kind = "choice" -> ChoiceOf(i)
                        [] kind = "topchoice" -> TopChoiceOf(i) [] kind = "all" -> AllOf(i) [] OTHER -> <<>>
AttrOf(kind, i) == IF kind \in {"attrs", "seqattrs"} THEN AttrsOf(i) ELSE <<>>

AllKinds == {"empty", "seq", "choice", "attrs", "seqattrs"}
AllKindsX == AllKinds \cup {"topchoice", "all"}
\* user = "ref_first": the file starts with a type that REFERS to the global element carrying the root base's name
\* (so that the element is looked up, ahead of its declaration, before any base is)
\* rec = "tree": the root base contains a reference to the global element AlphaChild, whose anonymous type EXTENDS the
\* root base (a child is itself a node); the element is declared last, so with derived_first the root base is first
\* reached through a forward reference and the recursion passes through a component that is still being converted
\* twin # "none": the root base lives in the imported namespace AND the near namespace has a type of the same name
\* (other members); a near type extends the near one - with the prefix t: or, the near namespace being the default one,
\* without a prefix - before the chain's first derived type extends the imported one; the near twin is declared last
Orders == {"base_first", "derived_first"}
Space ==
  {x \in {[depth |-> d, own |-> o, order |-> ord, loc |-> lc, homonym |-> h, user |-> u, rec |-> "none", twin |-> "none", same |-> sm] :
            d \in 1..MaxDepth, o \in [1..4 -> Kinds], ord \in Orders, lc \in {"near", "far"}, h \in {"none", "before", "after"}, u \in {"none", "ref_first"}, sm \in BOOLEAN} :
     /\ x.user = "ref_first" => (x.homonym # "none" /\ x.own[1] = "seqattrs" /\ x.own[2] \in {"seq", "attrs"})
     /\ x.same => (x.loc = "far" /\ x.homonym = "none" /\ x.user = "none" /\ x.own[1] \in {"seq", "seqattrs"} /\ x.own[2] \in {"seq", "seqattrs"})}
  \cup {x \in {[depth |-> d, own |-> o, order |-> ord, loc |-> "near", homonym |-> "none", user |-> "none", rec |-> "tree", twin |-> "none", same |-> FALSE] :
            d \in 1..MaxDepth, o \in [1..4 -> Kinds], ord \in Orders} : x.own[1] \in {"seq", "seqattrs"}}
  \cup {x \in {[depth |-> d, own |-> o, order |-> ord, loc |-> "far", homonym |-> "none", user |-> "none", rec |-> "none", twin |-> tw, same |-> FALSE] :
            d \in 1..MaxDepth, o \in [1..4 -> Kinds], ord \in Orders, tw \in {"prefixed", "default"}} :
            x.own[1] \in {"seq", "seqattrs"} /\ x.own[2] \in {"seq", "empty"}}
\* only the first depth+1 entries of `own` matter: normalise the rest
Norm(x) == [x EXCEPT !.own = [i \in 1..4 |-> IF i <= x.depth + 1 THEN x.own[i] ELSE "empty"]]
Cases == {Norm(x) : x \in Space}

\* level i (1-based index into the tables; level 1 = root base)
ChildRef == [k |-> "ref", ref |-> [p |-> "t", n |-> "AlphaChild"], min |-> 0, max |-> "unb"]
\* same = TRUE (root base in the other namespace): the first derived type declares an element with the LOCAL NAME of an
\* inherited one - its own, in its own namespace; both are members (seed C08-f)
OwnContent(x, i) == IF i = 2 /\ x.same /\ x.own[2] \in {"seq", "seqattrs"}
                    THEN << SeqP(1, "1", << El(Item[1], B("string"), 1, "1"), El(Count[2], B("int"), 0, "unb") >>) >>
                    ELSE ContentOf(x.own[i], i)
TypeItem(x, i) ==
  [k |-> "complex", n |-> TypeName[i],
   base |-> IF i = 1 THEN None ELSE T(IF i = 2 /\ x.loc = "far" THEN "o" ELSE "t", TypeName[i - 1]),
   content |-> IF i = 1 /\ x.rec = "tree" THEN << SeqP(1, "1", << El(Item[1], B("string"), 1, "1"), ChildRef, El(Count[1], B("int"), 0, "unb") >>) >>
               ELSE OwnContent(x, i),
   attrs |-> AttrOf(x.own[i], i)]
ChildElem == [k |-> "element", n |-> "AlphaChild",
              inline |-> [base |-> T("t", "AlphaType"), content |-> << SeqP(1, "1", << El("childPos", B("int"), 1, "1") >>) >>,
                          attrs |-> << At("childKind", B("string"), "opt") >>]]
Homonym(x) == [k |-> "element", n |-> "AlphaType", ty |-> T(IF x.loc = "far" THEN "o" ELSE "t", "AlphaType")]

RECURSIVE Up(_, _, _)
Up(x, i, n) == IF i > n THEN <<>> ELSE <<TypeItem(x, i)>> \o Up(x, i + 1, n)
RECURSIVE Down(_, _, _)
Down(x, i, lo) == IF i < lo THEN <<>> ELSE <<TypeItem(x, i)>> \o Down(x, i - 1, lo)

RootWithHomonym(x) == CASE x.homonym = "before" -> <<Homonym(x), TypeItem(x, 1)>>
                         [] x.homonym = "after" -> <<TypeItem(x, 1), Homonym(x)>>
                         [] OTHER -> <<TypeItem(x, 1)>>
Derived(x) == IF x.order = "base_first" THEN Up(x, 2, x.depth + 1) ELSE Down(x, x.depth + 1, 2)

UserType(x) == [k |-> "complex", n |-> "UserType", base |-> None,
                content |-> << SeqP(1, "1", << [k |-> "ref", ref |-> [p |-> IF x.loc = "far" THEN "o" ELSE "t", n |-> "AlphaType"], min |-> 1, max |-> "1"] >>) >>,
                attrs |-> <<>>]
File1Rest(x) == (IF x.loc = "far" THEN Derived(x)
                 ELSE IF x.order = "base_first" THEN RootWithHomonym(x) \o Derived(x) ELSE Derived(x) \o RootWithHomonym(x))
                \o (IF x.rec = "tree" THEN <<ChildElem>> ELSE <<>>)
TwinType == [k |-> "complex", n |-> "AlphaType", base |-> None, content |-> << SeqP(1, "1", << El("twinItem", B("string"), 1, "1") >>) >>, attrs |-> <<>>]
TwinUser(x) == [k |-> "complex", n |-> "TwinUser", base |-> T(IF x.twin = "default" THEN "" ELSE "t", "AlphaType"),
                content |-> << SeqP(1, "1", << El("twinOwn", B("string"), 1, "1") >>) >>, attrs |-> <<>>]
File1(x) == [name |-> "f1.xsd", kind |-> "xsd", tns |-> "Unear",
             xmlns |-> << <<"t", "Unear">>, <<"o", "Ufar">> >> \o (IF x.twin = "default" THEN << <<"", "Unear">> >> ELSE <<>>),
             items |-> (IF x.loc = "far" THEN << [k |-> "import", ns |-> "Ufar", loc |-> "f2.xsd"] >> ELSE <<>>)
                       \o (IF x.user = "ref_first" THEN <<UserType(x)>> ELSE <<>>)
                       \o (IF x.twin # "none" THEN <<TwinUser(x)>> ELSE <<>>) \o File1Rest(x) \o (IF x.twin # "none" THEN <<TwinType>> ELSE <<>>)]
File2(x) == [name |-> "f2.xsd", kind |-> "xsd", tns |-> "Ufar", xmlns |-> << <<"o", "Ufar">> >>,
             items |-> IF x.loc = "far" THEN RootWithHomonym(x) ELSE <<>>]
SetOf(x) == [files |-> <<File1(x), File2(x)>>, start |-> "f1.xsd"]

MCInit == c \in Cases
MCSpec == MCInit /\ [][UNCHANGED c]_vars

\* C08 at design level: for every derived type the walk yields base members first, then own
Agreement ==
  (Dev = {}) => LET S == SetOf(c) IN
     \A t \in {t \in TypesOf(S) : t.k = "complex"} :
        LET f == FileNamed(S, t.f) IN
        /\ ~Dropped(S, t, {})
        /\ FieldViol(ExpFields(S, f, t.it, t.it), BuiltFields(S, f, t.it, t.it, 8, {})) = {}
AgreementD ==
  LET S == SetOf(c) IN
     \A t \in {t \in TypesOf(S) : t.k = "complex"} :
        LET f == FileNamed(S, t.f) IN
        /\ ~Dropped(S, t, Dev)
        /\ FieldViol(ExpFields(S, f, t.it, t.it), BindNs(BuiltFields(S, f, t.it, t.it, 8, Dev), t.ns, Dev)) = {}
\* the declarative semantics itself: the base's members are a prefix of the derived type's members
BasePrefix ==
  LET S == SetOf(c) IN
  \A t \in {t \in TypesOf(S) : t.k = "complex" /\ HasBase(t.it)} :
     LET f == FileNamed(S, t.f)
         b == ResolveType(S, f, t.it, t.it.base)
         mb == Members(S, FileNamed(S, b.f), b.it, b.it, 8)
         mt == Members(S, f, t.it, t.it, 8)
     IN b # None /\ Len(mb) <= Len(mt) /\ SubSeq(mt, 1, Len(mb)) = mb

Emit == PrintT(<<"CASE", ToJson([prop |-> "C08", drv |-> "gen", start |-> "f1.xsd", files |-> SetOf(c).files, shape |-> c])>>)

N(x, p, s) == [xml |-> x, pascal |-> p, snake |-> s]
Vocab == [names |-> [UserType |-> N("UserType", "UserType", "user_type"),
                     TwinUser |-> N("TwinUser", "TwinUser", "twin_user"), twinItem |-> N("twinItem", "TwinItem", "twin_item"),
                     twinOwn |-> N("twinOwn", "TwinOwn", "twin_own"),
                     AlphaChild |-> N("AlphaChild", "AlphaChild", "alpha_child"),
                     childPos |-> N("childPos", "ChildPos", "child_pos"),
                     childKind |-> N("childKind", "ChildKind", "child_kind"),
                     alphaItem |-> N("alphaItem", "AlphaItem", "alpha_item"),
                     alphaCount |-> N("alphaCount", "AlphaCount", "alpha_count"),
                     alphaLeft |-> N("alphaLeft", "AlphaLeft", "alpha_left"),
                     alphaRight |-> N("alphaRight", "AlphaRight", "alpha_right"),
                     alphaKey |-> N("alphaKey", "AlphaKey", "alpha_key"),
                     alphaTag |-> N("alphaTag", "AlphaTag", "alpha_tag"),
                     bravoItem |-> N("bravoItem", "BravoItem", "bravo_item"),
                     bravoCount |-> N("bravoCount", "BravoCount", "bravo_count"),
                     bravoLeft |-> N("bravoLeft", "BravoLeft", "bravo_left"),
                     bravoRight |-> N("bravoRight", "BravoRight", "bravo_right"),
                     bravoKey |-> N("bravoKey", "BravoKey", "bravo_key"),
                     bravoTag |-> N("bravoTag", "BravoTag", "bravo_tag"),
                     charlieItem |-> N("charlieItem", "CharlieItem", "charlie_item"),
                     charlieCount |-> N("charlieCount", "CharlieCount", "charlie_count"),
                     charlieLeft |-> N("charlieLeft", "CharlieLeft", "charlie_left"),
                     charlieRight |-> N("charlieRight", "CharlieRight", "charlie_right"),
                     charlieKey |-> N("charlieKey", "CharlieKey", "charlie_key"),
                     charlieTag |-> N("charlieTag", "CharlieTag", "charlie_tag"),
                     deltaItem |-> N("deltaItem", "DeltaItem", "delta_item"),
                     deltaCount |-> N("deltaCount", "DeltaCount", "delta_count"),
                     deltaLeft |-> N("deltaLeft", "DeltaLeft", "delta_left"),
                     deltaRight |-> N("deltaRight", "DeltaRight", "delta_right"),
                     deltaKey |-> N("deltaKey", "DeltaKey", "delta_key"),
                     deltaTag |-> N("deltaTag", "DeltaTag", "delta_tag"),
                     AlphaType |-> N("AlphaType", "AlphaType", "alpha_type"),
                     BravoType |-> N("BravoType", "BravoType", "bravo_type"),
                     CharlieType |-> N("CharlieType", "CharlieType", "charlie_type"),
                     DeltaType |-> N("DeltaType", "DeltaType", "delta_type")],
          uris |-> [Unear |-> [uri |-> "http://zv.test/c08/near"], Ufar |-> [uri |-> "http://zv.test/c08/far"]]]
ASSUME PrintT(<<"VOCAB", ToJson(Vocab)>>)
=======================================================================
