--------------------------- MODULE MC_C09 ---------------------------
(***************************************************************************)
(* C09 on the model: one local name, `Thing`, is reused                     *)
(*   - across namespaces: a complex type Thing and a global element Thing   *)
(*     (typed by it) exist in the near namespace (file 1) and in the far    *)
(*     one (imported file 2), each with a distinctive member;               *)
(*   - across kinds: a local element and an attribute called Thing inside   *)
(*     an unrelated type, optionally ahead of everything else;              *)
(*   - with a builtin: optionally a user type called `date`.                *)
(* A user type refers to Thing through type=, ref= and (a second type)      *)
(* base=, each with the near or the far prefix; the referring types stand   *)
(* before or after the near declarations.                                   *)
(***************************************************************************)
EXTENDS Build, Json

CONSTANT Dev
VARIABLE c
vars == <<c>>

B(n) == [k |-> "builtin", n |-> n]
T(p, n) == [k |-> "named", p |-> p, n |-> n]
El(n, ty, min, max) == [k |-> "el", n |-> n, ty |-> ty, min |-> min, max |-> max]
SeqP(min, max, ps) == [k |-> "seq", min |-> min, max |-> max, ps |-> ps]

\* farfwd: the imported file refers to ITS OWN Thing (base= and ref=) ahead of the declarations
\* rec: the near Thing is recursive through a reference - it contains ref="t:ThingKid", a global element (declared last)
\* whose anonymous type extends Thing; a referring type that stands first then reaches Thing while Thing is being converted
\* dflt: the near file declares its own namespace as the default one and the referring types write their references to
\*       it WITHOUT a prefix (base="Thing"): the homonym of the imported namespace must not be taken
\* two:  a second derived type, extending the NEAR Thing, stands before the derived type under test - so the near Thing
\*       has been looked up (and, when it is declared later, converted ahead of its declaration) before the far one is
Space == {x \in {[ptype |-> a, pref |-> b, pbase |-> d, order |-> o, locals |-> lo, bname |-> bn, farfwd |-> ff, rec |-> r, dflt |-> df, two |-> tw] :
            a \in {"t", "o"}, b \in {"t", "o", "none"}, d \in {"t", "o", "none"},
            o \in {"users_first", "users_last"}, lo \in {"none", "first", "last"}, bn \in BOOLEAN, ff \in BOOLEAN, r \in BOOLEAN,
            df \in BOOLEAN, tw \in BOOLEAN} \cup
          \* selfext: the near Thing EXTENDS the far Thing - a type and its base share their local name
          {[ptype |-> a, pref |-> "none", pbase |-> d, order |-> o, locals |-> "none", bname |-> FALSE, farfwd |-> ff, rec |-> FALSE, dflt |-> FALSE, two |-> FALSE, selfext |-> TRUE] :
            a \in {"t", "o"}, d \in {"t", "o", "none"}, o \in {"users_first", "users_last"}, ff \in BOOLEAN} \cup
          \* innerhom: the far Thing has a member of the far type Inner (named through the far file's own prefix), and the
          \* near namespace declares a type Inner too: a near type derived from the far Thing inherits a member of the FAR Inner
          {[ptype |-> "t", pref |-> "none", pbase |-> "o", order |-> o, locals |-> "none", bname |-> FALSE, farfwd |-> ff, rec |-> FALSE, dflt |-> FALSE, two |-> FALSE, innerhom |-> TRUE] :
            o \in {"users_first", "users_last"}, ff \in BOOLEAN} :
            /\ x.dflt => (~x.bname /\ x.locals = "none")
            /\ x.two => (x.pbase # "none" /\ ~x.rec /\ ~x.bname /\ x.locals = "none")}
\* how a reference to the near namespace is written
P(x, p) == IF x.dflt /\ p = "t" THEN "" ELSE p

ThingType(mark) == [k |-> "complex", n |-> "Thing", base |-> None, content |-> << SeqP(1, "1", << El(mark, B("string"), 1, "1") >>) >>, attrs |-> <<>>]
RecThing == [k |-> "complex", n |-> "Thing", base |-> None,
             content |-> << SeqP(1, "1", << El("nearMark", B("string"), 1, "1"), [k |-> "ref", ref |-> [p |-> "t", n |-> "ThingKid"], min |-> 0, max |-> "unb"] >>) >>,
             attrs |-> <<>>]
ThingKid == [k |-> "element", n |-> "ThingKid",
             inline |-> [base |-> T("t", "Thing"), content |-> << SeqP(1, "1", << El("kidMark", B("int"), 1, "1") >>) >>, attrs |-> <<>>]]
ThingElem(p) == [k |-> "element", n |-> "Thing", ty |-> T(p, "Thing")]
DateType == [k |-> "complex", n |-> "date", base |-> None, content |-> << SeqP(1, "1", << El("dateMark", B("int"), 1, "1") >>) >>, attrs |-> <<>>]
LocalHolder == [k |-> "complex", n |-> "LocalHolder", base |-> None,
                content |-> << SeqP(1, "1", << El("Thing", B("boolean"), 0, "1") >>) >>,
                attrs |-> << [k |-> "attr", n |-> "Thing", ty |-> B("int"), use |-> "opt"] >>]

UserType(x) == [k |-> "complex", n |-> "UserType", base |-> None,
                content |-> << SeqP(1, "1", << El("viaType", T(P(x, x.ptype), "Thing"), 1, "1") >>
                                          \o (IF x.pref = "none" THEN <<>> ELSE << [k |-> "ref", ref |-> [p |-> P(x, x.pref), n |-> "Thing"], min |-> 0, max |-> "1"] >>)
                                          \o (IF x.bname THEN << El("viaBuiltinName", T("t", "date"), 0, "1") >> ELSE <<>>)) >>,
                attrs |-> <<>>]
DerivedNear(x) == [k |-> "complex", n |-> "DerivedNear", base |-> T(P(x, "t"), "Thing"),
                   content |-> << SeqP(1, "1", << El("nearOwn", B("string"), 1, "1") >>) >>, attrs |-> <<>>]
DerivedUser(x) == [k |-> "complex", n |-> "DerivedUser", base |-> T(P(x, x.pbase), "Thing"),
                   content |-> << SeqP(1, "1", << El("ownMark", B("string"), 1, "1") >>) >>, attrs |-> <<>>]
Users(x) == <<UserType(x)>> \o (IF x.two THEN <<DerivedNear(x)>> ELSE <<>>) \o (IF x.pbase = "none" THEN <<>> ELSE <<DerivedUser(x)>>)
InnerHom(x) == "innerhom" \in DOMAIN x
InnerType(mark) == [k |-> "complex", n |-> "Inner", base |-> None, content |-> << SeqP(1, "1", << El(mark, B("string"), 1, "1") >>) >>, attrs |-> <<>>]
SelfExt(x) == "selfext" \in DOMAIN x
ThingExt == [k |-> "complex", n |-> "Thing", base |-> T("o", "Thing"), content |-> << SeqP(1, "1", << El("nearMark", B("string"), 1, "1") >>) >>, attrs |-> <<>>]
Decls(x) == <<ThingElem("t"), IF SelfExt(x) THEN ThingExt ELSE IF x.rec THEN RecThing ELSE ThingType("nearMark")>> \o (IF x.bname THEN <<DateType>> ELSE <<>>)
            \o (IF x.rec THEN <<ThingKid>> ELSE <<>>) \o (IF InnerHom(x) THEN <<InnerType("nearInnerMark")>> ELSE <<>>)

File1(x) == [name |-> "f1.xsd", kind |-> "xsd", tns |-> "Unear",
             xmlns |-> << <<"t", "Unear">>, <<"o", "Ufar">> >> \o (IF x.dflt THEN << <<"", "Unear">> >> ELSE <<>>),
             items |-> << [k |-> "import", ns |-> "Ufar", loc |-> "f2.xsd"] >>
                       \o (IF x.locals = "first" THEN <<LocalHolder>> ELSE <<>>)
                       \o (IF x.order = "users_first" THEN Users(x) \o Decls(x) ELSE Decls(x) \o Users(x))
                       \o (IF x.locals = "last" THEN <<LocalHolder>> ELSE <<>>)]
FarUser == [k |-> "complex", n |-> "FarUser", base |-> T("t", "Thing"),
            content |-> << SeqP(1, "1", << [k |-> "ref", ref |-> [p |-> "t", n |-> "Thing"], min |-> 0, max |-> "1"] >>) >>, attrs |-> <<>>]
FarThingInner == [k |-> "complex", n |-> "Thing", base |-> None,
                  content |-> << SeqP(1, "1", << El("farMark", B("string"), 1, "1"), El("farInner", T("t", "Inner"), 0, "1") >>) >>, attrs |-> <<>>]
File2(x) == [name |-> "f2.xsd", kind |-> "xsd", tns |-> "Ufar", xmlns |-> << <<"t", "Ufar">> >>,
             items |-> (IF x.farfwd THEN <<FarUser>> ELSE <<>>)
                       \o (IF InnerHom(x) THEN << FarThingInner, ThingElem("t"), InnerType("farInnerMark") >> ELSE << ThingType("farMark"), ThingElem("t") >>)]
SetOf(x) == [files |-> <<File1(x), File2(x)>>, start |-> "f1.xsd"]

MCInit == c \in Space
MCSpec == MCInit /\ [][UNCHANGED c]_vars

\* C09 at design level: every reference of the referring types is bound to the component Resolve names
Agreement ==
  (Dev = {}) => LET S == SetOf(c) IN
     \A t \in {t \in TypesOf(S) : t.n \in {"UserType", "DerivedUser", "DerivedNear", "FarUser", "Thing"}} :
        LET f == FileNamed(S, t.f) IN
        /\ ~Dropped(S, t, {})
        /\ FieldViol(ExpFields(S, f, t.it, t.it), BuiltFields(S, f, t.it, t.it, 8, {})) = {}
AgreementD ==
  LET S == SetOf(c) IN
     \A t \in {t \in TypesOf(S) : t.n \in {"UserType", "DerivedUser", "DerivedNear", "FarUser", "Thing"}} :
        LET f == FileNamed(S, t.f) IN
        /\ ~Dropped(S, t, Dev)
        /\ FieldViol(ExpFields(S, f, t.it, t.it), BuiltFields(S, f, t.it, t.it, 8, Dev)) = {}
\* the declarative semantics distinguishes the homonyms (vacuity guard): near and far Thing have different members
Distinguishes ==
  LET S == SetOf(c)
      f1 == FileNamed(S, "f1.xsd")
      u == CHOOSE t \in TypesOf(S) : t.n = "UserType"
      m == ExpFields(S, f1, u.it, u.it)
  IN m[1].target = [k |-> "struct", ns |-> IF c.ptype = "t" THEN "Unear" ELSE "Ufar", n |-> "Thing"]

Emit == PrintT(<<"CASE", ToJson([prop |-> "C09", drv |-> "gen", start |-> "f1.xsd", files |-> SetOf(c).files, shape |-> c])>>)

N(x, p, s) == [xml |-> x, pascal |-> p, snake |-> s]
Vocab == [names |-> [Inner |-> N("Inner", "Inner", "inner"), farInner |-> N("farInner", "FarInner", "far_inner"),
                     farInnerMark |-> N("farInnerMark", "FarInnerMark", "far_inner_mark"), nearInnerMark |-> N("nearInnerMark", "NearInnerMark", "near_inner_mark"),
                     DerivedNear |-> N("DerivedNear", "DerivedNear", "derived_near"), nearOwn |-> N("nearOwn", "NearOwn", "near_own"),
                     ThingKid |-> N("ThingKid", "ThingKid", "thing_kid"), kidMark |-> N("kidMark", "KidMark", "kid_mark"),
                     FarUser |-> N("FarUser", "FarUser", "far_user"), Thing |-> N("Thing", "Thing", "thing"), date |-> N("date", "Date", "date"), LocalHolder |-> N("LocalHolder", "LocalHolder", "local_holder"),
                     UserType |-> N("UserType", "UserType", "user_type"), DerivedUser |-> N("DerivedUser", "DerivedUser", "derived_user"),
                     viaType |-> N("viaType", "ViaType", "via_type"), viaBuiltinName |-> N("viaBuiltinName", "ViaBuiltinName", "via_builtin_name"),
                     ownMark |-> N("ownMark", "OwnMark", "own_mark"), nearMark |-> N("nearMark", "NearMark", "near_mark"),
                     farMark |-> N("farMark", "FarMark", "far_mark"), dateMark |-> N("dateMark", "DateMark", "date_mark")],
          uris |-> [Unear |-> [uri |-> "http://zv.test/c09/near"], Ufar |-> [uri |-> "http://zv.test/c09/far"]]]
ASSUME PrintT(<<"VOCAB", ToJson(Vocab)>>)
=======================================================================
