--------------------------- MODULE MC_C15 ---------------------------
(* Bounded instance of Sink: every emission plan of up to MaxChunks buffers (lengths 1..MaxLen, call   *)
(* sites "prop"/"unwrap"), every fault position and kind, every short-write cap.                        *)
(* It also prints the document family the harness replays (one CASE per document).                     *)
EXTENDS Sink, Json

CONSTANTS MaxChunks, MaxLen

Chunk == [len : 1..MaxLen, site : {"prop", "unwrap"}]
Plans == UNION {[1..n -> Chunk] : n \in 0..MaxChunks}
Faults == {None} \cup [at : 1..(MaxChunks * MaxLen + 1), kind : {"other", "zero", "interrupted"}]

MCInit == /\ plan \in Plans /\ fault \in Faults /\ cap \in 0..2 /\ InitRest
MCSpec == MCInit /\ [][Next]_vars /\ Fair

---------------------------------------------------------------------------
(* Document family for replay: abstract schema sets that make the generator use every emitter         *)
(* (header, module, struct with and without doc comment, simple type with restriction constructor,     *)
(* alias, envelopes with and without header, soapAction function, service, helper modules).            *)
Str == [k |-> "builtin", n |-> "string"]
Int == [k |-> "builtin", n |-> "int"]
El(n, t) == [k |-> "el", n |-> n, ty |-> t, min |-> 1, max |-> "1"]
Seq1(ps) == << [k |-> "seq", min |-> 1, max |-> "1", ps |-> ps] >>
T(p, n) == [k |-> "named", p |-> p, n |-> n]

DocXsd == [name |-> "d1.xsd", kind |-> "xsd", tns |-> "Uone", xmlns |-> << <<"t", "Uone">> >>,
  items |-> << [k |-> "simple", n |-> "CodeType", base |-> Str, doc |-> "doc3",
                 facets |-> << <<"enum", "A">>, <<"enum", "B">>, <<"maxLen", 5>> >>],
               [k |-> "simple", n |-> "LevelType", base |-> Int, facets |-> << <<"minInc", 1>>, <<"maxInc", 9>> >>],
               [k |-> "complex", n |-> "ItemType", doc |-> "doc2",
                 content |-> Seq1(<< El("code", T("t", "CodeType")), El("level", T("t", "LevelType")),
                                    [k |-> "el", n |-> "note", ty |-> Str, min |-> 0, max |-> "unb"] >>),
                 attrs |-> << [k |-> "attr", n |-> "id", ty |-> Str, use |-> "req"] >>],
               [k |-> "element", n |-> "Item", ty |-> T("t", "ItemType")],
               [k |-> "element", n |-> "Wrapper", inline |-> [doc |-> "doc1", content |-> Seq1(<< El("item", T("t", "ItemType")) >>), attrs |-> <<>>]] >>]

Msg(n, parts) == [n |-> n, parts |-> parts]
Part(n, e) == [n |-> n, el |-> T("tns", e)]
DocWsdl == [name |-> "d2.wsdl", kind |-> "wsdl", tns |-> "Utwo", xmlns |-> <<>>,
  items |-> << [k |-> "element", n |-> "GetItem", inline |-> [content |-> Seq1(<< El("id", Str) >>), attrs |-> <<>>]],
               [k |-> "element", n |-> "GetItemResponse", inline |-> [doc |-> "doc2", content |-> Seq1(<< El("name", Str) >>), attrs |-> <<>>]],
               [k |-> "element", n |-> "Auth", inline |-> [content |-> Seq1(<< El("token", Str) >>), attrs |-> <<>>]] >>,
  wsdl |-> [messages |-> << Msg("GetItemIn", << Part("parameters", "GetItem"), Part("auth", "Auth") >>),
                            Msg("GetItemOut", << Part("parameters", "GetItemResponse") >>) >>,
            portType |-> "ItemPort", binding |-> "ItemBinding", service |-> "ItemService", address |-> "addr1",
            ops |-> << [n |-> "GetItem", action |-> "act1",
                        input |-> [msg |-> "GetItemIn", parts |-> "parameters", headers |-> << [msg |-> "GetItemIn", part |-> "auth"] >>],
                        output |-> [msg |-> "GetItemOut", parts |-> "parameters", headers |-> <<>>]] >>]]

Docs == << [prop |-> "C15", drv |-> "sink", start |-> "d1.xsd", files |-> <<DocXsd>>, label |-> "family-xsd"],
           [prop |-> "C15", drv |-> "sink", start |-> "d2.wsdl", files |-> <<DocWsdl>>, label |-> "family-wsdl"],
           [prop |-> "C15", drv |-> "sink", start |-> "d2.wsdl", files |-> <<DocWsdl, DocXsd>>, label |-> "family-both"] >>

Vocab == [names |-> [x |-> [xml |-> "x"]],
          uris |-> [Uone |-> [uri |-> "http://zv.test/c15/one"], Utwo |-> [uri |-> "http://zv.test/c15/two"]],
          texts |-> [doc1 |-> "a single line", doc2 |-> "first line\nsecond line", doc3 |-> "one\ntwo\nthree",
                     addr1 |-> "http://127.0.0.1:9/items", act1 |-> "http://zv.test/c15/two/GetItem"]]
ASSUME PrintT(<<"VOCAB", ToJson(Vocab)>>)
ASSUME \A d \in 1..Len(Docs) : PrintT(<<"CASE", ToJson(Docs[d])>>)
=======================================================================
