--------------------------- MODULE MC_C14 ---------------------------
(***************************************************************************)
(* C14 on the model: AllSafe (every payload class stays data at every site  *)
(* of spec/Emit.tla), and the inputs for replay:                            *)
(*  - payload cases: one payload class placed at one source position of a   *)
(*    schema (element / attribute / type / operation / part / service name,  *)
(*    enumeration value, facet value, documentation of a simple and of a     *)
(*    complex type, target namespace URI, endpoint address, soapAction);     *)
(*  - keyword cases: every strict, reserved and weak keyword of edition     *)
(*    2024 in every naming position.                                        *)
(***************************************************************************)
EXTENDS Emit, Json, Sequences

CONSTANT Slice     \* "payload" | "keyword"
VARIABLE c
vars == <<c>>

Positions == {"elem_name", "attr_name", "type_name", "op_name", "part_name", "service_name"}
\* address / action: the payload alone, inside a urn: (a URL parser keeps quotes and backslashes of a non-hierarchical
\* scheme) and in the query and fragment of an http URL
UrlVariants == {"address_urn", "address_query", "action_urn", "action_query"}
\* doc_skipped: the documentation of a simple type that produces NO item (it is named like the Rust type of its base),
\* declared last in its namespace - its comment lines must not be left dangling
Sources == Positions \cup {"enum", "facet", "doc_simple", "doc_complex", "doc_skipped", "uri", "address", "action"} \cup UrlVariants
SrcOf(p) == CASE p \in Positions -> "name" [] p = "enum" -> "enum" [] p = "facet" -> "facet" [] p \in {"doc_simple", "doc_complex", "doc_skipped"} -> "doc"
              [] p = "uri" -> "uri" [] p \in {"address", "address_urn", "address_query"} -> "address" [] OTHER -> "action"
AtBase(p) == CASE p \in {"address_urn", "address_query"} -> "address" [] p \in {"action_urn", "action_query"} -> "action" [] OTHER -> p
Wrap(p) == CASE p \in {"address_urn", "action_urn"} -> "urn+" [] p \in {"address_query", "action_query"} -> "query+" [] OTHER -> ""

StrictKw == {"as", "break", "const", "continue", "crate", "else", "enum", "extern", "false", "fn", "for", "if", "impl", "in", "let", "loop",
             "match", "mod", "move", "mut", "pub", "ref", "return", "self", "Self", "static", "struct", "super", "trait", "true", "type",
             "unsafe", "use", "where", "while", "async", "await", "dyn"}
ReservedKw == {"abstract", "become", "box", "do", "final", "macro", "override", "priv", "typeof", "unsized", "virtual", "yield", "try", "gen"}
WeakKw == {"union", "raw", "safe", "auto", "default"}
\* the keywords that cannot be raw identifiers, written with punctuation that the case conversion strips (PascalCase is not
\* injective: self_, _self, self-, Self. all become Self)
Decorated == {"self_", "_self", "self-", "Self.", "crate_", "super-", "SELF", "cRate"}
\* NCNames of which the case conversion leaves nothing or a word that begins with a digit: they are not keywords, but they
\* go through the same naming positions and must come out as identifiers (D44)
Degenerate == {"_", "__", "_1", "_9lives", "_2020-01"}
Keywords == StrictKw \cup ReservedKw \cup WeakKw \cup Decorated \cup Degenerate

Space == IF Slice = "payload" THEN {[kind |-> "payload", at |-> p, cls |-> k] : p \in Sources, k \in Classes}
                                      \cup {[kind |-> "payload", at |-> "facet", cls |-> k] : k \in NumClasses}
         ELSE {[kind |-> "keyword", at |-> p, kw |-> k] : p \in Positions, k \in Keywords}

\* the text placed at position p in case x (a vocabulary id), or the harmless default
PayId(k) == "pay_" \o k
TextAt(x, p, dflt) == IF AtBase(x.at) = p THEN Wrap(x.at) \o (IF x.kind = "payload" THEN PayId(x.cls) ELSE x.kw) ELSE dflt

Str == [k |-> "builtin", n |-> "string"]
Int == [k |-> "builtin", n |-> "int"]
T(p, n) == [k |-> "named", p |-> p, n |-> n]
El(n, t) == [k |-> "el", n |-> n, ty |-> t, min |-> 1, max |-> "1"]
Seq1(ps) == << [k |-> "seq", min |-> 1, max |-> "1", ps |-> ps] >>
Inline(ps) == [content |-> Seq1(ps), attrs |-> <<>>]

Maybe(x, p, field, rec) == IF x.at = p THEN rec @@ (field :> TextAt(x, p, "")) ELSE rec
Xsd(x) == [name |-> "f.xsd", kind |-> "xsd", tns |-> TextAt(x, "uri", "Uplain"), xmlns |-> << <<"t", TextAt(x, "uri", "Uplain")>> >>,
  items |-> << Maybe(x, "doc_simple", "doc", [k |-> "simple", n |-> "CodeType", base |-> Str, facets |-> << <<"enum", "A">>, <<"enum", TextAt(x, "enum", "B")>> >>]),
               [k |-> "simple", n |-> "LevelType", base |-> Int, facets |-> << <<"minInc", TextAt(x, "facet", "num1")>>, <<"maxLen", TextAt(x, "facet", "num1")>> >>],
               Maybe(x, "doc_complex", "doc", [k |-> "complex", n |-> TextAt(x, "type_name", "FocusType"), base |-> [none |-> TRUE],
                  content |-> Seq1(<< El(TextAt(x, "elem_name", "plainMember"), Str), El("code", T("t", "CodeType")) >>),
                  attrs |-> << [k |-> "attr", n |-> TextAt(x, "attr_name", "plainAttr"), ty |-> Str, use |-> "opt"] >>]) >>
           \o (IF x.at = "doc_skipped" THEN << [k |-> "simple", n |-> "String", base |-> Str, facets |-> <<>>, doc |-> TextAt(x, "doc_skipped", "")] >> ELSE <<>>)]

Wsdl(x) == [name |-> "f.wsdl", kind |-> "wsdl", tns |-> TextAt(x, "uri", "Uplain"), xmlns |-> <<>>,
  items |-> << [k |-> "element", n |-> "DoIt", inline |-> Inline(<< El("arg", Str) >>)],
               [k |-> "element", n |-> "DoItResponse", inline |-> Inline(<< El("res", Str) >>)],
               [k |-> "element", n |-> "Auth", inline |-> Inline(<< El("token", Str) >>)] >>,
  wsdl |-> [messages |-> << [n |-> "DoItIn", parts |-> << [n |-> "parameters", el |-> T("tns", "DoIt")], [n |-> TextAt(x, "part_name", "auth"), el |-> T("tns", "Auth")] >>],
                            [n |-> "DoItOut", parts |-> << [n |-> "parameters", el |-> T("tns", "DoItResponse")] >>] >>,
            portType |-> "ThePort", binding |-> "TheBinding", service |-> TextAt(x, "service_name", "TheService"),
            address |-> TextAt(x, "address", "addr_plain"),
            ops |-> << [n |-> TextAt(x, "op_name", "DoIt"), action |-> TextAt(x, "action", "act_plain"),
                        input |-> [msg |-> "DoItIn", parts |-> "parameters", headers |-> << [msg |-> "DoItIn", part |-> TextAt(x, "part_name", "auth")] >>],
                        output |-> [msg |-> "DoItOut", parts |-> "parameters", headers |-> <<>>]] >>]]

IsWsdl(x) == AtBase(x.at) \in {"op_name", "part_name", "service_name", "address", "action"}
CaseOf(x) == [prop |-> "C14", drv |-> "lex", start |-> IF IsWsdl(x) THEN "f.wsdl" ELSE "f.xsd",
              files |-> IF IsWsdl(x) THEN <<Wsdl(x)>> ELSE <<Xsd(x)>>, shape |-> x,
              probes |-> IF x.kind = "payload" THEN << [site |-> x.at, cls |-> x.cls, src |-> SrcOf(x.at), text |-> Wrap(x.at) \o PayId(x.cls),
                                                        marker |-> IF x.cls \in NumClasses THEN "31337" ELSE "ZVMK"] >> ELSE <<>>]

MCInit == c \in Space
MCSpec == MCInit /\ [][UNCHANGED c]_vars
DesignSafe == (Dev = {}) => AllSafe
DesignSafeD == AllSafe
Emit == PrintT(<<"CASE", ToJson(CaseOf(c))>>)

\* payload texts: marker + the class's characters (the concretiser XML-escapes them into attribute values / text)
PayText == [pay_plain |-> "ZVMKplain", pay_quote |-> "ZVMK\"q", pay_backslash |-> "ZVMK\\b", pay_braces |-> "ZVMK{x}{{y",
            pay_lf |-> "ZVMK\nsecond", pay_cr |-> "ZVMK\rafter", pay_comment_end |-> "ZVMK*/ x", pay_comment_start |-> "ZVMK/* x",
            pay_inject |-> "ZVMK\"; fn marker() {} //", pay_nonascii |-> "ZVMKäß€", pay_nonxid |-> "²①ZVMK½",
            pay_num_plus |-> "+31337", pay_num_zeros |-> "0031337", pay_num_space |-> "  31337 ", pay_num_neg |-> "-31337",
            num1 |-> "1", addr_plain |-> "http://127.0.0.1:9/svc", act_plain |-> "http://zv.test/c14/act"]
Vocab == [names |-> [pay_plain |-> [xml |-> PayText.pay_plain], pay_quote |-> [xml |-> PayText.pay_quote], pay_backslash |-> [xml |-> PayText.pay_backslash],
                     pay_braces |-> [xml |-> PayText.pay_braces], pay_lf |-> [xml |-> PayText.pay_lf], pay_cr |-> [xml |-> PayText.pay_cr],
                     pay_comment_end |-> [xml |-> PayText.pay_comment_end], pay_comment_start |-> [xml |-> PayText.pay_comment_start],
                     pay_inject |-> [xml |-> PayText.pay_inject], pay_nonascii |-> [xml |-> PayText.pay_nonascii], pay_nonxid |-> [xml |-> PayText.pay_nonxid]],
          uris |-> [Uplain |-> [uri |-> "http://zv.test/c14/plain"],
                    pay_plain |-> [uri |-> "http://zv.test/c14/" \o PayText.pay_plain], pay_quote |-> [uri |-> "http://zv.test/c14/" \o PayText.pay_quote],
                    pay_backslash |-> [uri |-> "http://zv.test/c14/" \o PayText.pay_backslash], pay_braces |-> [uri |-> "http://zv.test/c14/" \o PayText.pay_braces],
                    pay_lf |-> [uri |-> "http://zv.test/c14/" \o PayText.pay_lf], pay_cr |-> [uri |-> "http://zv.test/c14/" \o PayText.pay_cr],
                    pay_comment_end |-> [uri |-> "http://zv.test/c14/" \o PayText.pay_comment_end], pay_comment_start |-> [uri |-> "http://zv.test/c14/" \o PayText.pay_comment_start],
                    pay_inject |-> [uri |-> "http://zv.test/c14/" \o PayText.pay_inject], pay_nonascii |-> [uri |-> "http://zv.test/c14/" \o PayText.pay_nonascii],
                    pay_nonxid |-> [uri |-> "http://zv.test/c14/" \o PayText.pay_nonxid]],
          texts |-> PayText]
ASSUME PrintT(<<"VOCAB", ToJson(Vocab)>>)
=======================================================================
