--------------------------- MODULE MC_C19 ---------------------------
(* C19 on the model: every value tree of the bounded family, with wrappers at every subset of positions, is     *)
(* transparent when all channels are forwarded; and the probe cases for replay: probe type x value shape.      *)
EXTENDS MultiRef, Json
VARIABLE c
vars == <<c>>

Leaf(t, ok) == [k |-> "leaf", text |-> t, ok |-> ok]
W(v) == [k |-> "wrap", inner |-> v]
Leaves == {Leaf(t, ok) : t \in {"", "abc"}, ok \in BOOLEAN}
MaybeW(S) == S \cup {W(v) : v \in S}
Nodes1 == {[k |-> "node", attrs |-> a, nsdecl |-> nd, kids |-> ks] : a \in {{}, {"id"}}, nd \in {{}, {"q"}}, ks \in {<<>>} \cup {<<x>> : x \in MaybeW(Leaves)} \cup {<<x, y>> : x \in MaybeW(Leaves), y \in MaybeW({Leaf("abc", TRUE)})}}
Values == MaybeW(Leaves) \cup MaybeW(Nodes1) \cup {[k |-> "node", attrs |-> {"id"}, nsdecl |-> {}, kids |-> <<n>>] : n \in MaybeW({x \in Nodes1 : Len(x.kids) <= 1})}

\* replay cases: probe type x value shape (the harness builds the bare and the wrapped value of that shape)
Probes == {"leaf", "attrs", "nested", "tree", "restricted"}
TextClasses == {"empty", "plain", "escape", "nonascii"}
\* depth 70: a chain of seventy wrapped nodes - transparency has no depth limit (seed C19-f)
Shapes == [probe : Probes, text : TextClasses, opt : BOOLEAN, count : 0..2, depth : (0..2) \cup {70}, attr : {"absent", "present"}, violates : BOOLEAN]
\* drop shapes that do not differ for the probe
Relevant(s) == /\ (s.probe = "leaf" => (s.count = 0 /\ s.depth = 0 /\ ~s.opt /\ s.attr = "absent" /\ ~s.violates))
               /\ (s.probe = "attrs" => (s.count = 0 /\ s.depth = 0 /\ ~s.opt /\ ~s.violates))
               /\ (s.probe = "nested" => (s.depth = 0 /\ ~s.violates))
               /\ (s.probe = "tree" => (~s.opt /\ s.attr = "absent" /\ ~s.violates /\ s.count >= 1))
               /\ (s.depth = 70 => (s.probe = "tree" /\ s.count = 1 /\ s.text = "plain"))
               /\ (s.probe = "restricted" => (s.depth = 0 /\ s.attr = "absent"))

MCInit == c \in ({[kind |-> "model", v |-> v] : v \in Values} \cup {[kind |-> "probe", s |-> s] : s \in {s \in Shapes : Relevant(s)}})
MCSpec == MCInit /\ [][UNCHANGED c]_vars

TransparentWhenForwarding == (c.kind = "model" /\ NotForwarded = {}) => Transparent(c.v)
\* vacuity guard (run with NotForwarded = {ch}): dropping any one channel must break transparency for some value
TransparentAlways == c.kind = "model" => Transparent(c.v)
Emit == c.kind = "probe" => PrintT(<<"CASE", ToJson([prop |-> "C19", drv |-> "multiref", shape |-> c.s])>>)
ASSUME PrintT(<<"VOCAB", ToJson([names |-> [x |-> [xml |-> "x"]]])>>)
=======================================================================
