--------------------------- MODULE MC_C10 ---------------------------
(***************************************************************************)
(* C10 on the model: file sets whose namespace URIs are chosen to collide   *)
(* (equal last path segment, equal first three letters, dots, dashes, URN)  *)
(* x the way each is declared (targetNamespace only, root xmlns under a     *)
(* source prefix, nested xmlns on a component, imported file) x import       *)
(* shape and order.  ReadSet is the reader's traversal expressed with the    *)
(* Registry operators; RegistryOK(final document) is C10 at design level.   *)
(***************************************************************************)
EXTENDS Registry, Json

CONSTANTS Dev, Shape,  \* Shape: "two" | "chain" | "star" | "diamond"
          Small         \* TRUE: the reduced declaration choices of the quick tier
VARIABLE c
vars == <<c>>

\* vocabulary: uri id -> concrete URI and its abbreviation base
UriTab == [Uv1 |-> [uri |-> "http://zv.test/svc/v1/types", base |-> "typ"],
           Uv2 |-> [uri |-> "http://zv.test/svc/v2/types", base |-> "typ"],
           Udot |-> [uri |-> "http://zv.test/svc/t.y.pes", base |-> "typ"],
           Udash |-> [uri |-> "http://zv.test/svc/core-types", base |-> "typ"],
           Umsg |-> [uri |-> "http://zv.test/svc/messages", base |-> "mes"],
           Uurn |-> [uri |-> "urn:zv:types", base |-> "urn"]]
UriIds == {"Uv1", "Uv2", "Udot", "Udash", "Umsg", "Uurn"}
BaseOf(u) == UriTab[u].base

FileNames == <<"f1.xsd", "f2.xsd", "f3.xsd", "f4.xsd">>
TypeNames == <<"TypeAlpha", "TypeBravo", "TypeCharlie", "TypeDelta">>
NFiles == CASE Shape = "two" -> 2 [] Shape = "diamond" -> 4 [] OTHER -> 3
ImportsOf(i) == CASE Shape = "two" -> (IF i = 1 THEN <<2>> ELSE <<>>)
                  [] Shape = "chain" -> (IF i = 1 THEN <<2>> ELSE IF i = 2 THEN <<3>> ELSE <<>>)
                  [] Shape = "star" -> (IF i = 1 THEN (IF c.rev THEN <<3, 2>> ELSE <<2, 3>>) ELSE <<>>)
                  [] OTHER -> (IF i = 1 THEN <<2, 3>> ELSE IF i \in {2, 3} THEN <<4>> ELSE <<>>)

\* declarations: a file declares for each source prefix in {"a", "b"} nothing or one URI; one nested declaration "n"
DeclChoices == IF Small THEN {<<>>, << <<"a", "Uv2">> >>, << <<"a", "Umsg">> >>, << <<"a", "Uv1">>, <<"b", "Udot">> >>} ELSE
               {<<>>} \cup {<< <<"a", u>> >> : u \in UriIds} \cup {<< <<"a", u>>, <<"b", v>> >> : u \in {"Uv1", "Umsg"}, v \in {"Uv2", "Udot"}}
NestedChoices == IF Small THEN {<<>>, << <<"n", "Udash">> >>} ELSE {<<>>} \cup {<< <<"n", u>> >> : u \in {"Uv2", "Udash"}}

\* case: per file its tns, root declarations and nested declarations
TnsChoices == {t \in [1..NFiles -> UriIds] : \A i, j \in 1..NFiles : i # j => t[i] # t[j]}
FewTns == {t \in TnsChoices : t[1] \in {"Uv1", "Umsg"} /\ \E i \in 1..NFiles : BaseOf(t[i]) = "typ"}
\* one namespace spread over two files with a file of another namespace between them (chain f1 -> f2 -> f3): the
\* components of f1 and f3 belong to ONE module although they are not read back to back (seed C10-f)
SpreadTns == {t \in [1..3 -> UriIds] : t[1] = t[3] /\ t[1] # t[2] /\ t[1] \in {"Uv1", "Umsg"} /\ t[2] \in {"Uv2", "Udot", "Umsg"}}
Space == CASE Shape = "two" -> {[tns |-> t, decl |-> d, nested |-> n, rev |-> FALSE] :
                                   t \in TnsChoices, d \in [1..2 -> DeclChoices], n \in [1..2 -> NestedChoices]}
           [] Shape = "chain" -> {[tns |-> t, decl |-> d, nested |-> [i \in 1..3 |-> <<>>], rev |-> FALSE] :
                                   t \in FewTns, d \in [1..3 -> {<<>>, << <<"a", "Uv1">> >>, << <<"a", "Uv2">> >>}]}
                                 \cup {[tns |-> t, decl |-> d, nested |-> [i \in 1..3 |-> <<>>], rev |-> FALSE] :
                                   t \in SpreadTns, d \in [1..3 -> {<<>>, << <<"a", "Uv2">> >>}]}
           [] Shape = "star" -> {[tns |-> t, decl |-> d, nested |-> [i \in 1..3 |-> <<>>], rev |-> r] :
                                   t \in FewTns, d \in [1..3 -> {<<>>, << <<"a", "Udot">> >>}], r \in BOOLEAN}
           [] OTHER -> {[tns |-> t, decl |-> [i \in 1..4 |-> <<>>], nested |-> [i \in 1..4 |-> <<>>], rev |-> FALSE] :
                                   t \in {t \in TnsChoices : t[1] = "Umsg"}}

---------------------------------------------------------------------------
(* the reader's traversal over the registry operators (functional form of reader.rs) *)
RECURSIVE AddRefs(_, _)
AddRefs(d, decls) == IF decls = <<>> THEN d
                     ELSE AddRefs(AddRefD(d, decls[1][1], decls[1][2], BaseOf(decls[1][2]), FALSE, Dev), Tail(decls))

RECURSIVE ReadFile(_, _, _, _)
RECURSIVE ReadImports(_, _, _, _, _)
\* both return [doc, processed, recs]; recs = {<<file index, namespace record its components were read under>>}
ReadImports(x, imps, d, processed, recs) ==
  IF imps = <<>> THEN [doc |-> d, processed |-> processed, recs |-> recs]
  ELSE LET t == Head(imps) IN
       IF t \in processed THEN ReadImports(x, Tail(imps), d, processed, recs)
       ELSE LET r == ReadFile(x, t, Seed(d, Dev), processed \cup {t}) IN
            ReadImports(x, Tail(imps), Merge(d, r.doc, Dev), r.processed, recs \cup r.recs)
ReadFile(x, i, seed, processed) ==
  LET d0 == AddRefs(seed, x.decl[i])
      d1 == SwitchTns(d0, x.tns[i], BaseOf(x.tns[i]), Dev)
      r == ReadImports(x, ImportsOf(i), d1, processed, {})
      d2 == AddRefs(r.doc, x.nested[i])      \* the component's own xmlns declarations
  IN [doc |-> d2, processed |-> r.processed, recs |-> r.recs \cup {<<i, d1.cur>>}]
Run(x) == ReadFile(x, 1, EmptyDoc, {1})
Final(x) == Run(x).doc

\* the abstract output the model predicts (only what the C10 clauses look at)
RecOf(x, i) == (CHOOSE pr \in Run(x).recs : pr[1] = i)[2]
PredStruct(x, i) == [k |-> "struct", name |-> TypeNames[i],
                     y |-> [prefix |-> Label(RecOf(x, i)), namespaces |-> << <<Label(RecOf(x, i)), UriTab[RecOf(x, i).uri].uri>> >>, rename |-> TypeNames[i]],
                     fields |-> << [y |-> [prefix |-> Label(RecOf(x, i)), rename |-> "value"]] >>]
PredOut(x) ==
  LET fin == Final(x) IN
  [mods |-> [k \in 1..Len(fin.tns) |->
               [name |-> "mod_" \o Label(fin.tns[k]),
                items |-> LET idx == {i \in {pr[1] : pr \in Run(x).recs} : RecOf(x, i) = fin.tns[k]}
                              RECURSIVE Pick(_)
                              Pick(S) == IF S = {} THEN <<>> ELSE LET i == CHOOSE j \in S : \A j2 \in S : j <= j2 IN <<PredStruct(x, i)>> \o Pick(S \ {i})
                          IN Pick(idx)]],
   root |-> <<>>]

MCInit == c \in Space
MCSpec == MCInit /\ [][UNCHANGED c]_vars

\* C10 at design level
RegistryInvariant == (Dev = {}) => RegistryOK(Final(c))
RegistryInvariantD == RegistryOK(Final(c))
\* every target namespace of the set got exactly one module
AllModules == (Dev = {}) => \A i \in 1..NFiles : Cardinality({k \in 1..Len(Final(c).tns) : Final(c).tns[k].uri = c.tns[i]}) = 1

---------------------------------------------------------------------------
B(n) == [k |-> "builtin", n |-> n]
TypeItem(i) == [k |-> "complex", n |-> TypeNames[i], base |-> None, xmlns |-> c.nested[i],
                content |-> << [k |-> "seq", min |-> 1, max |-> "1",
                                ps |-> << [k |-> "el", n |-> "value", ty |-> B("string"), min |-> 1, max |-> "1"] >>] >>,
                attrs |-> <<>>]
ImpItems(i) == [k \in 1..Len(ImportsOf(i)) |-> [k |-> "import", ns |-> c.tns[ImportsOf(i)[k]], loc |-> FileNames[ImportsOf(i)[k]]]]
FileRec(i) == [name |-> FileNames[i], kind |-> "xsd", tns |-> c.tns[i], xmlns |-> c.decl[i], items |-> ImpItems(i) \o <<TypeItem(i)>>]
CaseOf == [prop |-> "C10", drv |-> "gen", start |-> "f1.xsd", files |-> [i \in 1..NFiles |-> FileRec(i)],
           types |-> [i \in 1..NFiles |-> [n |-> TypeNames[i], ns |-> c.tns[i]]],
           pred |-> PredOut(c)]
Emit == PrintT(<<"CASE", ToJson(CaseOf)>>)

Vocab == [names |-> [TypeAlpha |-> [xml |-> "TypeAlpha", pascal |-> "TypeAlpha"], TypeBravo |-> [xml |-> "TypeBravo", pascal |-> "TypeBravo"],
                     TypeCharlie |-> [xml |-> "TypeCharlie", pascal |-> "TypeCharlie"], TypeDelta |-> [xml |-> "TypeDelta", pascal |-> "TypeDelta"]],
          uris |-> UriTab]
ASSUME PrintT(<<"VOCAB", ToJson(Vocab)>>)
=======================================================================
