--------------------------- MODULE MC_C06 ---------------------------
(* Exhaustive instance of Facets: every (carrier, wrapper, value, restriction set) of the abstract space *)
(* is one initial state; `Agreement` is C06 on the model, every state is printed as a CASE for replay.   *)
EXTENDS Facets, Json

CONSTANT Slice    \* "int" | "str" | "other": which part of the space this run enumerates
VARIABLE c
vars == <<c>>

FacetSet(S) == {{}} \cup {{b} : b \in S}

NumRs == {[present |-> TRUE, minInc |-> a, maxInc |-> b, minExc |-> x, maxExc |-> y,
           len |-> {}, minLen |-> {}, maxLen |-> {}, enum |-> "absent"] :
             a \in FacetSet(BoundVals), b \in FacetSet(BoundVals), x \in FacetSet(BoundVals), y \in FacetSet(BoundVals)}

Lens == 0..3
StrRs == {[present |-> TRUE, minInc |-> a, maxInc |-> {}, minExc |-> {}, maxExc |-> {},
           len |-> l, minLen |-> mn, maxLen |-> mx, enum |-> e] :
             a \in FacetSet({0}), l \in FacetSet(Lens), mn \in FacetSet(Lens), mx \in FacetSet(Lens),
             e \in {"absent", "has", "hasnot", "empty"}}

\* wrappers: which item sequences are tried for a value v (second item 0 / a fixed other value)
Wraps(v, other) == {[wrap |-> "bare", vals |-> <<v>>], [wrap |-> "some", vals |-> <<v>>], [wrap |-> "none", vals |-> <<>>],
                    [wrap |-> "vec", vals |-> <<>>], [wrap |-> "vec", vals |-> <<other, v>>], [wrap |-> "vec", vals |-> <<v, other>>]}

IntCases == {[carrier |-> k, wrap |-> w.wrap, vals |-> w.vals, R |-> R] :
               k \in IntCarriers, R \in NumRs \cup {NoR}, w \in UNION {Wraps(v, 0) : v \in Offsets \cup {LOW, HIGH}}}
IntCasesOK == {x \in IntCases : \A i \in 1..Len(x.vals) : x.vals[i] \in ValuesOf(x.carrier)}

Text(n, mb) == [len |-> n, num |-> {}, mb |-> mb]
Numeral(v) == [len |-> 1, num |-> {v}, mb |-> FALSE]    \* len is filled in by the harness for numerals; length facets absent
TextVals == {Text(n, mb) : n \in 0..3, mb \in BOOLEAN} \ {Text(0, TRUE)}
StrCases == {[carrier |-> "String", wrap |-> w.wrap, vals |-> w.vals, R |-> R] :
               R \in StrRs \cup {NoR}, w \in UNION {{[wrap |-> "bare", vals |-> <<v>>], [wrap |-> "some", vals |-> <<v>>]} : v \in TextVals}}
            \cup {[carrier |-> "String", wrap |-> "bare", vals |-> <<Numeral(v)>>, R |-> R] :
               R \in NumRs \cup {NoR}, v \in Offsets \cup {LOW, HIGH}}

OtherCases == {[carrier |-> k, wrap |-> "bare", vals |-> <<0>>, R |-> R] : k \in OtherCarriers,
               R \in {NoR} \cup {r \in NumRs : Cardinality(r.minInc) + Cardinality(r.maxInc) + Cardinality(r.minExc) + Cardinality(r.maxExc) = 1}}

\* thorough: a wider neighbourhood of the bounds for the carriers with the full i32 bound range
WideBounds == -2..2
WideOffsets == -3..3
WideRs == {[present |-> TRUE, minInc |-> a, maxInc |-> b, minExc |-> x, maxExc |-> y,
            len |-> {}, minLen |-> {}, maxLen |-> {}, enum |-> "absent"] :
             a \in FacetSet(WideBounds), b \in FacetSet(WideBounds), x \in FacetSet(WideBounds), y \in FacetSet(WideBounds)}
WideCases == {[carrier |-> k, wrap |-> w, vals |-> <<v>>, R |-> R] : k \in {"i32", "i64"}, w \in {"bare", "some"}, R \in WideRs, v \in WideOffsets \cup {LOW, HIGH}}
WideCasesOK == {x \in WideCases : x.carrier = "i64" \/ x.vals[1] \notin {LOW, HIGH}}

Space == CASE Slice = "int" -> IntCasesOK [] Slice = "str" -> StrCases [] Slice = "int_wide" -> WideCasesOK [] OTHER -> OtherCases

MCInit == c \in Space
MCNext == UNCHANGED c
MCSpec == MCInit /\ [][MCNext]_vars

Agreement == (Dev = {}) => Agree(c)
AgreementD == Agree(c)
\* vacuity guard: the space contains accepted and rejected triples
Emit == PrintT(<<"CASE", ToJson([prop |-> "C06", drv |-> "facets", c |-> c, sat |-> Sat(c)])>>)
ASSUME PrintT(<<"VOCAB", ToJson([names |-> [x |-> [xml |-> "x"]]])>>)
=======================================================================
