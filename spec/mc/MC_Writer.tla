--------------------------- MODULE MC_Writer ---------------------------
(* Writer.tla on every small work list: up to two modules with up to two nodes each, up to two root nodes,   *)
(* bindings and services.  Checked: the header comes first, the helpers last, modules are balanced, every     *)
(* component of the work list is emitted exactly once and in its own module, and the writer finishes.         *)
EXTENDS Writer
VARIABLE todo0     \* the work list the run started with
Names == {"A", "B"}
Seqs(S, n) == UNION {[1..k -> S] : k \in 0..n}
ModLists == Seqs([name : {"mod_x", "mod_y"}, nodes : Seqs(Names, 2)], 2)
MCInit == /\ phase = "start" /\ open = <<>> /\ emitted = <<>>
          /\ mods \in {m \in ModLists : \A i, j \in 1..Len(m) : i # j => m[i].name # m[j].name}
          /\ roots \in Seqs(Names, 1) /\ bindings \in Seqs({"Bind"}, 1) /\ services \in Seqs({"Svc"}, 1)
          /\ todo0 = [mods |-> mods, roots |-> roots, bindings |-> bindings, services |-> services]
MCSpec == MCInit /\ [][Next /\ UNCHANGED todo0]_<<vars, todo0>> /\ WF_<<vars, todo0>>(Next /\ UNCHANGED todo0)

\* at the end, what was emitted is exactly the work list, section by section, in order
RECURSIVE ModEmits(_)
ModEmits(ms) == IF ms = <<>> THEN <<>>
                ELSE << [section |-> "module_open", subject |-> Head(ms).name] >>
                     \o [i \in 1..Len(Head(ms).nodes) |-> [section |-> "node", subject |-> Head(ms).nodes[i]]]
                     \o << [section |-> "module_close", subject |-> Head(ms).name] >> \o ModEmits(Tail(ms))
Tag(sec, s) == [i \in 1..Len(s) |-> [section |-> sec, subject |-> s[i]]]
Expected == << [section |-> "header", subject |-> "-"] >> \o ModEmits(todo0.mods) \o Tag("root_node", todo0.roots)
            \o Tag("binding", todo0.bindings) \o Tag("service", todo0.services) \o << [section |-> "helpers", subject |-> "-"] >>
EverythingOnce == phase = "end" => emitted = Expected
=======================================================================
