--------------------------- MODULE MC_Lookup ---------------------------
(* Bounded instance of Lookup: the declared components in a fixed order (any order is a renaming), one component   *)
(* handed down by an importer, and EVERY way the declared components can refer to each other, to the handed-down  *)
(* one and to nothing, by name or by value, with up to MaxRefs references each.                                    *)
EXTENDS Lookup
CONSTANTS Declared3, MaxRefs, Wide     \* Wide: references may also point to the handed-down component and to nothing
Targets == IF Wide THEN Comp \cup {"nowhere"} ELSE Range(Declared3)
RefRec == [to : Targets, how : {"name", "value"}]
RefSeqs == UNION {[1..n -> RefRec] : n \in 0..MaxRefs}
MCInit == /\ order = Declared3
          /\ known = Comp \ Range(Declared3)
          /\ refs \in {r \in [Comp -> RefSeqs] : \A c \in Comp \ Range(Declared3) : r[c] = <<>>}
          /\ InitRest
MCSpec == MCInit /\ [][Next]_vars /\ WF_vars(Next)
Order3 == <<"c1", "c2", "c3">>
Order4 == <<"c1", "c2", "c3", "c4">>
=======================================================================
