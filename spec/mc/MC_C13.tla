--------------------------- MODULE MC_C13 ---------------------------
(* C13: the outcome protocol of Robust is model-checked for every feature set; the space of structure-aware  *)
(* mutations (descriptor = operation x attribute/tag x occurrence index x replacement class) and the base     *)
(* documents they are applied to are enumerated here and printed for the harness: BASE lines (abstract        *)
(* schema sets, including self- and mutually-referential ones) and MUT lines (single mutations).              *)
EXTENDS Robust, Json, Sequences

CONSTANT MaxIdx
MCSpec == Spec

Attrs == {"name", "type", "base", "ref", "value", "element", "message", "part", "use", "minOccurs", "maxOccurs", "namespace",
          "schemaLocation", "binding", "location", "soapAction", "targetNamespace", "parts"}
Vals == {"empty", "dangling", "unknown_prefix", "self", "self_plain", "number", "space", "colon", "builtin", "unbounded", "negative"}
Tags == {"complexType", "simpleType", "element", "sequence", "choice", "attribute", "restriction", "enumeration", "extension",
         "complexContent", "import", "message", "part", "operation", "input", "output", "body", "header", "binding", "service", "port",
         "address", "types", "schema", "portType"}
Classes == {"empty", "text", "unclosed", "decl_only", "other_xml", "bom", "deep", "entities", "nul", "no_ns", "huge_name"}

Muts == {[op |-> "drop_attr", attr |-> a, idx |-> i] : a \in Attrs, i \in 1..MaxIdx}
        \cup {[op |-> "set_attr", attr |-> a, idx |-> i, val |-> v] : a \in Attrs, i \in 1..MaxIdx, v \in Vals}
        \cup {[op |-> o, tag |-> t, idx |-> i] : o \in {"del_elem", "dup_elem", "move_last"}, t \in Tags, i \in 1..MaxIdx}
        \cup {[op |-> "rename_tag", tag |-> t, idx |-> 1, to |-> n] : t \in {"schema", "definitions", "complexType", "sequence", "restriction", "types"}, n \in {"notschema", "element", "import"}}
        \cup {[op |-> "content", class |-> k] : k \in Classes}

---------------------------------------------------------------------------
Str == [k |-> "builtin", n |-> "string"]
Int == [k |-> "builtin", n |-> "int"]
T(p, n) == [k |-> "named", p |-> p, n |-> n]
El(n, t, mn, mx) == [k |-> "el", n |-> n, ty |-> t, min |-> mn, max |-> mx]
Ref(p, n) == [k |-> "ref", ref |-> [p |-> p, n |-> n], min |-> 0, max |-> "unb"]
SeqP(ps) == [k |-> "seq", min |-> 1, max |-> "1", ps |-> ps]
Complex(n, base, ps, attrs) == [k |-> "complex", n |-> n, base |-> base, content |-> << SeqP(ps) >>, attrs |-> attrs]
None0 == [none |-> TRUE]

RichXsd == [name |-> "rich.xsd", kind |-> "xsd", tns |-> "Urich", xmlns |-> << <<"t", "Urich">>, <<"o", "Uother">> >>,
  items |-> << [k |-> "import", ns |-> "Uother", loc |-> "other.xsd"],
               [k |-> "simple", n |-> "CodeType", base |-> Str, doc |-> "doc", facets |-> << <<"enum", "A">>, <<"enum", "B">>, <<"maxLen", 5>> >>],
               [k |-> "simple", n |-> "LevelType", base |-> Int, facets |-> << <<"minInc", 1>>, <<"maxExc", 9>> >>],
               Complex("BaseType", None0, << El("id", Str, 1, "1"), El("code", T("t", "CodeType"), 0, "1") >>, << [k |-> "attr", n |-> "ver", ty |-> Int, use |-> "req"] >>),
               Complex("ItemType", T("t", "BaseType"),
                       << El("level", T("t", "LevelType"), 1, "1"), [k |-> "choice", ps |-> << El("left", Str, 1, "1"), El("right", T("o", "FarType"), 1, "1") >>],
                          [k |-> "seq", min |-> 0, max |-> "unb", ps |-> << El("note", Str, 1, "1") >>], Ref("t", "Item") >>,
                       << [k |-> "attr", n |-> "lang", ty |-> Str, use |-> "opt"] >>),
               [k |-> "element", n |-> "Item", ty |-> T("t", "ItemType")],
               [k |-> "element", n |-> "Wrapper", inline |-> [content |-> << SeqP(<< Ref("t", "Item"), El("count", Int, 1, "1") >>) >>, attrs |-> <<>>]] >>]
OtherXsd == [name |-> "other.xsd", kind |-> "xsd", tns |-> "Uother", xmlns |-> << <<"o", "Uother">> >>,
  items |-> << Complex("FarType", None0, << El("farValue", Str, 1, "1") >>, <<>>) >>]

Part(n, e) == [n |-> n, el |-> T("tns", e)]
Inline(ps) == [content |-> << SeqP(ps) >>, attrs |-> <<>>]
SvcWsdl == [name |-> "svc.wsdl", kind |-> "wsdl", tns |-> "Usvc", xmlns |-> << <<"o", "Uother">> >>,
  items |-> << [k |-> "import", ns |-> "Uother", loc |-> "other.xsd"],
               [k |-> "element", n |-> "GetItem", inline |-> Inline(<< El("id", Str, 1, "1"), El("far", T("o", "FarType"), 0, "1") >>)],
               [k |-> "element", n |-> "GetItemResponse", inline |-> Inline(<< El("name", Str, 1, "1") >>)],
               [k |-> "element", n |-> "Auth", inline |-> Inline(<< El("token", Str, 1, "1") >>)] >>,
  wsdl |-> [messages |-> << [n |-> "GetItemIn", parts |-> << Part("parameters", "GetItem"), Part("auth", "Auth") >>],
                            [n |-> "GetItemOut", parts |-> << Part("parameters", "GetItemResponse") >>] >>,
            portType |-> "ItemPort", binding |-> "ItemBinding", service |-> "ItemService", address |-> "addr",
            ops |-> << [n |-> "GetItem", action |-> "act",
                        input |-> [msg |-> "GetItemIn", parts |-> "parameters", headers |-> << [msg |-> "GetItemIn", part |-> "auth"] >>],
                        output |-> [msg |-> "GetItemOut", parts |-> "parameters", headers |-> <<>>]],
                       [n |-> "Ping", input |-> [msg |-> "GetItemIn", headers |-> <<>>]] >>]]

\* self- and mutually-referential definitions (valid or not): the protocol must still end in doc or err
SelfXsd == [name |-> "selfref.xsd", kind |-> "xsd", tns |-> "Urich", xmlns |-> << <<"t", "Urich">> >>,
  items |-> << [k |-> "element", n |-> "Tree", inline |-> Inline(<< El("label", Str, 1, "1"), Ref("t", "Tree") >>)],
               Complex("Loop", T("t", "Loop"), << El("x", Str, 1, "1") >>, <<>>),
               Complex("Ping", T("t", "Pong"), << El("a", Str, 1, "1") >>, <<>>),
               Complex("Pong", T("t", "Ping"), << El("b", Str, 1, "1"), Ref("t", "Tree") >>, <<>>),
               [k |-> "simple", n |-> "SelfSimple", base |-> T("t", "SelfSimple"), facets |-> <<>>],
               [k |-> "element", n |-> "SelfTyped", ty |-> T("t", "SelfTyped")],
               [k |-> "element", n |-> "Left", inline |-> Inline(<< Ref("t", "Right") >>)],
               [k |-> "element", n |-> "Right", inline |-> Inline(<< Ref("t", "Left"), Ref("t", "Left") >>)],
               [k |-> "import", ns |-> "Urich", loc |-> "selfref.xsd"] >>]

\* a ladder of forward references, each level referring twice to the next (work must stay proportional to the size)
RECURSIVE Ladder(_, _)
LName(i) == "Level" \o ToString(i)
Ladder(i, n) == IF i > n THEN <<>>
                ELSE << [k |-> "element", n |-> LName(i),
                         inline |-> Inline(IF i = n THEN << El("leaf", Str, 1, "1") >>
                                           ELSE << [k |-> "ref", ref |-> [p |-> "t", n |-> LName(i + 1)], min |-> 1, max |-> "1"],
                                                   [k |-> "ref", ref |-> [p |-> "t", n |-> LName(i + 1)], min |-> 0, max |-> "1"] >>)] >>
                     \o Ladder(i + 1, n)
\* the same ladder in the "default namespace = target namespace" style: unprefixed references
RECURSIVE PlainLadder(_, _)
PlainLadder(i, n) == IF i > n THEN <<>>
                     ELSE << [k |-> "element", n |-> LName(i),
                              inline |-> Inline(IF i = n THEN << El("leaf", Str, 1, "1") >>
                                                ELSE << [k |-> "ref", ref |-> [p |-> "", n |-> LName(i + 1)], min |-> 1, max |-> "1"],
                                                        [k |-> "ref", ref |-> [p |-> "", n |-> LName(i + 1)], min |-> 0, max |-> "1"] >>)] >>
                          \o PlainLadder(i + 1, n)
PlainLadderXsd(n) == [name |-> "ladder.xsd", kind |-> "xsd", tns |-> "Urich", xmlns |-> << <<"", "Urich">> >>, items |-> PlainLadder(1, n)]
LadderXsd(n) == [name |-> "ladder.xsd", kind |-> "xsd", tns |-> "Urich", xmlns |-> << <<"t", "Urich">> >>, items |-> Ladder(1, n)]

\* a forward chain of extensions: type i extends type i+1, declared in that order (every base is converted ahead of its
\* declaration, from inside the conversion of its derived type): with the forward memo the work is one conversion per
\* type and reference; without it the chain is walked again from every level
RECURSIVE ExtChain(_, _)
CName(i) == "Chain" \o ToString(i)
ExtChain(i, n) == IF i > n THEN <<>>
                  ELSE << [k |-> "complex", n |-> CName(i), base |-> IF i = n THEN None0 ELSE [k |-> "named", p |-> "t", n |-> CName(i + 1)],
                           content |-> << [k |-> "seq", min |-> 1, max |-> "1", ps |-> << El("item" \o ToString(i), Str, 0, "1") >>] >>, attrs |-> <<>>] >>
                       \o ExtChain(i + 1, n)
ExtChainXsd(n) == [name |-> "chain.xsd", kind |-> "xsd", tns |-> "Urich", xmlns |-> << <<"t", "Urich">> >>, items |-> ExtChain(1, n)]
CONSTANT ChainN

\* members whose field names coincide: the disambiguation loop of the writer must end
ClashXsd == [name |-> "clash.xsd", kind |-> "xsd", tns |-> "Urich", xmlns |-> << <<"t", "Urich">> >>,
             items |-> << [k |-> "complex", n |-> "ClashBase", base |-> None0,
                           content |-> << [k |-> "seq", min |-> 1, max |-> "1", ps |-> << El("id", Str, 1, "1"), El("Id", Str, 0, "1"), El("lang", Str, 0, "1") >>] >>,
                           attrs |-> << [k |-> "attr", n |-> "id", ty |-> Str, use |-> "opt"], [k |-> "attr", n |-> "ID", ty |-> Str, use |-> "opt"],
                                        [k |-> "attr", n |-> "lang", ty |-> Str, use |-> "opt"] >>],
                          [k |-> "complex", n |-> "ClashDerived", base |-> [k |-> "named", p |-> "t", n |-> "ClashBase"],
                           content |-> <<>>, attrs |-> << [k |-> "attr", n |-> "Lang", ty |-> Str, use |-> "opt"], [k |-> "attr", n |-> "iD", ty |-> Str, use |-> "opt"] >>] >>]
\* error messages about components with long non-ASCII names (the message quotes the node): a simple type whose
\* restriction has no base, with 0..7 ASCII characters in front of a long Cyrillic name (every byte offset modulo the width
\* of a character occurs), and an element without a name
Pad == <<"", "a", "ab", "abc", "abcd", "abcde", "abcdef", "abcdefg">>
Cyr == "жжжжжжжжжжжжжжжжжжжжжжжжжжжжжжжжжжжжжжжжжжжжжжжжжжжжжжжжжжжжжжжжжжжжжжжжжжжжжжжжжжжжжжжжжжжжжжжжжжжжжжжжжжжжжжжжжжжжжжжжжжжж"
NonAsciiXsd == [name |-> "nonascii.xsd", kind |-> "xsd", tns |-> "Urich", xmlns |-> << <<"t", "Urich">> >>,
                items |-> [i \in 1..8 |-> [k |-> "rawxml", xml |-> "  <xs:simpleType name=\"" \o Pad[i] \o Cyr \o "\"><xs:restriction><xs:simpleType><xs:restriction base=\"xs:string\"/></xs:simpleType></xs:restriction></xs:simpleType>"]]
                          \o [i \in 1..8 |-> [k |-> "rawxml", xml |-> "  <xs:complexType name=\"T" \o ToString(i) \o "\"><xs:sequence><xs:element type=\"xs:string\" id=\"" \o Pad[i] \o Cyr \o "\"/></xs:sequence></xs:complexType>"]]]
\* cyclic definitions through the reference kinds that are not types: model groups and attribute groups that refer to
\* themselves or to each other (invalid XSD; whoever inlines a group must not follow the cycle for ever - seed C13-f)
RawItem(x) == [k |-> "rawxml", xml |-> x]
GroupCycleXsd == [name |-> "groups.xsd", kind |-> "xsd", tns |-> "Urich", xmlns |-> << <<"t", "Urich">> >>,
                  items |-> << RawItem("  <xs:group name=\"SelfGroup\"><xs:sequence><xs:element name=\"a\" type=\"xs:string\"/><xs:group ref=\"t:SelfGroup\" minOccurs=\"0\"/></xs:sequence></xs:group>"),
                               RawItem("  <xs:group name=\"PingGroup\"><xs:sequence><xs:group ref=\"t:PongGroup\"/></xs:sequence></xs:group>"),
                               RawItem("  <xs:group name=\"PongGroup\"><xs:choice><xs:group ref=\"t:PingGroup\"/><xs:element name=\"b\" type=\"xs:int\"/></xs:choice></xs:group>"),
                               RawItem("  <xs:attributeGroup name=\"SelfAttrs\"><xs:attribute name=\"k\" type=\"xs:string\"/><xs:attributeGroup ref=\"t:SelfAttrs\"/></xs:attributeGroup>"),
                               RawItem("  <xs:complexType name=\"UsesGroups\"><xs:sequence><xs:group ref=\"t:SelfGroup\"/><xs:group ref=\"t:PingGroup\" minOccurs=\"0\"/></xs:sequence><xs:attributeGroup ref=\"t:SelfAttrs\"/></xs:complexType>"),
                               RawItem("  <xs:complexType name=\"ExtendsUser\"><xs:complexContent><xs:extension base=\"t:UsesGroups\"><xs:group ref=\"t:PongGroup\"/></xs:extension></xs:complexContent></xs:complexType>") >>]
Bases == << [label |-> "nonascii-errors", start |-> "nonascii.xsd", files |-> <<NonAsciiXsd>>, mutable |-> FALSE, feat |-> {}],
            [label |-> "group-cycles", start |-> "groups.xsd", files |-> <<GroupCycleXsd>>, mutable |-> FALSE, feat |-> {"self_reference"}],
            [label |-> "name-clash", start |-> "clash.xsd", files |-> <<ClashXsd>>, mutable |-> TRUE, feat |-> {}],
            [label |-> "ext-chain", start |-> "chain.xsd", files |-> <<ExtChainXsd(ChainN)>>, mutable |-> FALSE, feat |-> {"ref_ladder"}],
            [label |-> "rich-xsd", start |-> "rich.xsd", files |-> <<RichXsd, OtherXsd>>, mutable |-> TRUE, feat |-> {}],
            [label |-> "wsdl", start |-> "svc.wsdl", files |-> <<SvcWsdl, OtherXsd>>, mutable |-> TRUE, feat |-> {}],
            [label |-> "self-referential", start |-> "selfref.xsd", files |-> <<SelfXsd>>, mutable |-> TRUE, feat |-> {"self_reference", "import_cycle"}],
            [label |-> "ladder-26", start |-> "ladder.xsd", files |-> <<LadderXsd(26)>>, mutable |-> FALSE, feat |-> {"ref_ladder"}],
            [label |-> "ladder-unprefixed-26", start |-> "ladder.xsd", files |-> <<PlainLadderXsd(26)>>, mutable |-> FALSE, feat |-> {"ref_ladder"}],
            [label |-> "unknown-start", start |-> "rich.xsd", files |-> <<RichXsd, OtherXsd>>, mutable |-> FALSE, feat |-> {"start_unknown"},
             start_override |-> "missing.xsd"] >>

\* malformed inputs whose error variant the model names: [class, base, mutation]
ErrCases == << [class |-> "import_without_namespace", base |-> "rich-xsd", mut |-> [op |-> "drop_attr", attr |-> "namespace", idx |-> 1, file |-> 1]],
               [class |-> "import_of_missing_file", base |-> "rich-xsd", mut |-> [op |-> "set_attr", attr |-> "schemaLocation", idx |-> 1, val |-> "nowhere.xsd", file |-> 1]],
               [class |-> "types_without_schema", base |-> "wsdl", mut |-> [op |-> "rename_tag", tag |-> "schema", idx |-> 1, to |-> "notschema", file |-> 1]],
               [class |-> "unknown_message", base |-> "wsdl", mut |-> [op |-> "set_attr", attr |-> "message", idx |-> 1, val |-> "tns:NoSuchMessage", file |-> 1]],
               [class |-> "encoded_body", base |-> "wsdl", mut |-> [op |-> "set_attr", attr |-> "use", idx |-> 1, val |-> "encoded", file |-> 1]],
               [class |-> "invalid_address", base |-> "wsdl", mut |-> [op |-> "set_attr", attr |-> "location", idx |-> 1, val |-> "url_bad", file |-> 1]],
               [class |-> "invalid_soap_action", base |-> "wsdl", mut |-> [op |-> "set_attr", attr |-> "soapAction", idx |-> 1, val |-> "url_bad", file |-> 1]],
               [class |-> "part_without_element", base |-> "wsdl", mut |-> [op |-> "drop_attr", attr |-> "element", idx |-> 1, file |-> 1]],
               [class |-> "unknown_part_element", base |-> "wsdl", mut |-> [op |-> "set_attr", attr |-> "element", idx |-> 1, val |-> "tns:NoSuchElement", file |-> 1]],
               [class |-> "unknown_binding", base |-> "wsdl", mut |-> [op |-> "set_attr", attr |-> "binding", idx |-> 1, val |-> "tns:NoSuchBinding", file |-> 1]],
               [class |-> "not_xml", base |-> "rich-xsd", mut |-> [op |-> "content", class |-> "text", file |-> 1]] >>
ASSUME \A e \in 1..Len(ErrCases) : PrintT(<<"ERRCASE", ToJson(ErrCases[e] @@ [err |-> ErrorOf[ErrCases[e].class]])>>)

Vocab == [names |-> [x |-> [xml |-> "x"]],
          uris |-> [Urich |-> [uri |-> "http://zv.test/c13/rich"], Uother |-> [uri |-> "http://zv.test/c13/other"], Usvc |-> [uri |-> "http://zv.test/c13/svc"]],
          texts |-> [doc |-> "two\nlines", addr |-> "http://127.0.0.1:9/svc", act |-> "http://zv.test/c13/svc/GetItem"]]
ASSUME PrintT(<<"VOCAB", ToJson(Vocab)>>)
ASSUME \A b \in 1..Len(Bases) : PrintT(<<"BASE", ToJson(Bases[b])>>)
ASSUME \A m \in Muts : PrintT(<<"MUT", ToJson(m)>>)
=======================================================================
