--------------------------- MODULE MC_C16 ---------------------------
(* Client.tla explored exhaustively: every (violating?, credentials?, server script), all steps.  The scenarios *)
(* are printed for replay (SCN lines); the harness runs each against every operation of the WSDL cases of MC_CR. *)
EXTENDS Client, Json
MCSpec == Spec
OutcomeAgrees == (pc = "ret" /\ Dev = {}) => LET o == Outcome(violates, creds, script) IN
                    o.result = result /\ o.conns = conns /\ o.posts = Len(requests)
EmitScn == (pc = "check") => PrintT(<<"SCN", ToJson([violates |-> violates, creds |-> creds, script |-> script])>>)
=======================================================================
