--------------------------- MODULE MC_C12 ---------------------------
(* Instance of Api for C12, and the inputs the harness replays: WSDLs with several operations, a message   *)
(* with several parts and an imported schema file, so that every container the output depends on has       *)
(* more than one entry.  Histories (repeated calls on one object) are the RepeatSame invariant of Imports   *)
(* (checked in MC_C11); here the same inputs are generated under every registration order, from several    *)
(* threads and in fresh processes.                                                                         *)
EXTENDS Api, Json

CONSTANT NOps
MCSpec == Spec

Str == [k |-> "builtin", n |-> "string"]
El(n, t) == [k |-> "el", n |-> n, ty |-> t, min |-> 1, max |-> "1"]
Seq1(ps) == << [k |-> "seq", min |-> 1, max |-> "1", ps |-> ps] >>
T(p, n) == [k |-> "named", p |-> p, n |-> n]
Inline(ps) == [content |-> Seq1(ps), attrs |-> <<>>]

OpNames == <<"GetAlpha", "PutBravo", "ListCharlie", "DropDelta", "FindEcho">>
ReqEl(i) == [k |-> "element", n |-> OpNames[i], inline |-> Inline(<< El("id", Str), El("ext", T("x", "ExtType")) >>)]
RespEl(i) == [k |-> "element", n |-> OpNames[i] \o "Response", inline |-> Inline(<< El("result", Str) >>)]
HdrEl(n) == [k |-> "element", n |-> n, inline |-> Inline(<< El("token", Str) >>)]
Part(n, e) == [n |-> n, el |-> T("tns", e)]
InMsg(i) == [n |-> OpNames[i] \o "In", parts |-> << Part("auth", "AuthHeader"), Part("bodyPart", OpNames[i]), Part("trace", "TraceHeader") >>]
OutMsg(i) == [n |-> OpNames[i] \o "Out", parts |-> << Part("parameters", OpNames[i] \o "Response") >>]
Op(i) == [n |-> OpNames[i], action |-> "act",
          input |-> [msg |-> OpNames[i] \o "In", headers |-> << [msg |-> OpNames[i] \o "In", part |-> "auth"], [msg |-> OpNames[i] \o "In", part |-> "trace"] >>],
          output |-> [msg |-> OpNames[i] \o "Out", headers |-> <<>>]]

Wsdl(n) == [name |-> "svc.wsdl", kind |-> "wsdl", tns |-> "Usvc", xmlns |-> << <<"x", "Uext">> >>,
            items |-> << [k |-> "import", ns |-> "Uext", loc |-> "basetypes.xsd"], HdrEl("AuthHeader"), HdrEl("TraceHeader") >>
                      \o [i \in 1..n |-> ReqEl(i)] \o [i \in 1..n |-> RespEl(i)],
            wsdl |-> [messages |-> [i \in 1..n |-> InMsg(i)] \o [i \in 1..n |-> OutMsg(i)],
                      portType |-> "SvcPort", binding |-> "SvcBinding", service |-> "SvcService", address |-> "addr",
                      ops |-> [i \in 1..n |-> Op(i)]]]
\* (the name of the unrelated file is a suffix of the imported file's name: a look-up of files must be exact)
Ext == [name |-> "basetypes.xsd", kind |-> "xsd", tns |-> "Uext", xmlns |-> << <<"x", "Uext">> >>,
        items |-> << [k |-> "complex", n |-> "ExtType", base |-> None, content |-> Seq1(<< El("extValue", Str) >>), attrs |-> <<>>] >>]
Other == [name |-> "types.xsd", kind |-> "xsd", tns |-> "Uother", xmlns |-> <<>>,
          items |-> << [k |-> "complex", n |-> "UnrelatedType", base |-> None, content |-> Seq1(<< El("u", Str) >>), attrs |-> <<>>] >>]

\* a type whose members live in several other namespaces (refs to global elements of four imported schemas)
NsIds == <<"Una", "Unb", "Unc", "Und">>
PartFile(i) == [name |-> "part" \o ToString(i) \o ".xsd", kind |-> "xsd", tns |-> NsIds[i], xmlns |-> <<>>,
                items |-> << [k |-> "element", n |-> "Elem" \o ToString(i), inline |-> Inline(<< El("v", Str) >>)] >>]
RefTo(i) == [k |-> "ref", ref |-> [p |-> "p" \o ToString(i), n |-> "Elem" \o ToString(i)], min |-> 0, max |-> "1"]
MultiNs == [name |-> "multi.xsd", kind |-> "xsd", tns |-> "Usvc",
            xmlns |-> << <<"p1", "Una">>, <<"p2", "Unb">>, <<"p3", "Unc">>, <<"p4", "Und">> >>,
            items |-> [i \in 1..4 |-> [k |-> "import", ns |-> NsIds[i], loc |-> "part" \o ToString(i) \o ".xsd"]]
                      \o << [k |-> "complex", n |-> "OrderType", base |-> None, content |-> Seq1(<< RefTo(1), RefTo(2), RefTo(3), RefTo(4), El("own", Str) >>), attrs |-> <<>>] >>]

Docs == << [prop |-> "C12", drv |-> "c12", start |-> "multi.xsd", files |-> <<MultiNs, PartFile(1), PartFile(2), PartFile(3), PartFile(4)>>, label |-> "multi-namespace-members"],
            [prop |-> "C12", drv |-> "c12", start |-> "svc.wsdl", files |-> <<Wsdl(NOps), Ext, Other>>, label |-> "wsdl-ops"],
           [prop |-> "C12", drv |-> "c12", start |-> "svc.wsdl", files |-> <<Wsdl(2), Ext, Other>>, label |-> "wsdl-2ops"],
           [prop |-> "C12", drv |-> "c12", start |-> "basetypes.xsd", files |-> <<Ext, Other>>, label |-> "xsd-only"] >>

Vocab == [names |-> [x |-> [xml |-> "x"]],
          uris |-> [Usvc |-> [uri |-> "http://zv.test/c12/service"], Uext |-> [uri |-> "http://zv.test/c12/ext"], Uother |-> [uri |-> "http://zv.test/c12/other"],
                    Una |-> [uri |-> "http://zv.test/c12/alpha"], Unb |-> [uri |-> "http://zv.test/c12/bravo"],
                    Unc |-> [uri |-> "http://zv.test/c12/charlie"], Und |-> [uri |-> "http://zv.test/c12/delta"]],
          texts |-> [addr |-> "http://127.0.0.1:9/svc", act |-> "http://zv.test/c12/service/action"]]
ASSUME PrintT(<<"VOCAB", ToJson(Vocab)>>)
ASSUME \A d \in 1..Len(Docs) : PrintT(<<"CASE", ToJson(Docs[d])>>)
=======================================================================
