--------------------------- MODULE MC_C11 ---------------------------
(* Bounded instance of Imports for C11 (and the history clause of C12):  *)
(* every import digraph over the files of FileSeq, every start file.     *)
(* Every initial state is printed as one CASE line for the harness.      *)
EXTENDS Imports, Json, SequencesExt, Randomization

CONSTANTS FileSeq,   \* the files in a fixed order (sequence without duplicates, range = File)
          Extras,    \* set of sequences of Special targets appended to a file's imports
          Siblings   \* unreachable sibling kinds the harness adds (sequence)

FileSeq3 == <<"f1.xsd", "f2.xsd", "f3.xsd">>
FileSeq4 == <<"f1.xsd", "f2.xsd", "f3.xsd", "f4.xsd">>
FileSeq2 == <<"f1.xsd", "f2.xsd">>
NoExtras == {<<>>}
AllExtras == {<<>>, <<"wk">>, <<"noloc">>, <<"missing">>, <<"wk", "noloc">>}
Sib3 == <<"valid", "malformed", "nonschema">>
NoSib == <<>>

AllFiles == {"f1.xsd", "f2.xsd", "f3.xsd", "f4.xsd", "f5.xsd", "f6.xsd"}
\* SameNs: the third file declares its (differently named) components in the namespace of the second - two reachable
\* files of one target namespace (a namespace is not a file)
CONSTANT SameNs
UriOf == [f \in AllFiles |->
            CASE f = "f1.xsd" -> "Ualpha" [] f = "f2.xsd" -> "Ubravo" [] f = "f3.xsd" -> (IF SameNs THEN "Ubravo" ELSE "Ucharlie") [] f = "f4.xsd" -> "Udelta"
              [] f = "f5.xsd" -> "Uecho" [] OTHER -> "Ufoxtrot"]
TypeOf == [f \in AllFiles |->
            CASE f = "f1.xsd" -> "TypeAlpha" [] f = "f2.xsd" -> "TypeBravo" [] f = "f3.xsd" -> "TypeCharlie" [] f = "f4.xsd" -> "TypeDelta"
              [] f = "f5.xsd" -> "TypeEcho" [] OTHER -> "TypeFoxtrot"]

Vocab == [names |-> [TypeAlpha |-> [xml |-> "TypeAlpha", pascal |-> "TypeAlpha"],
                     TypeBravo |-> [xml |-> "TypeBravo", pascal |-> "TypeBravo"],
                     TypeCharlie |-> [xml |-> "TypeCharlie", pascal |-> "TypeCharlie"],
                     TypeDelta |-> [xml |-> "TypeDelta", pascal |-> "TypeDelta"],
                     TypeEcho |-> [xml |-> "TypeEcho", pascal |-> "TypeEcho"], TypeFoxtrot |-> [xml |-> "TypeFoxtrot", pascal |-> "TypeFoxtrot"],
                     ElemEcho |-> [xml |-> "ElemEcho", pascal |-> "ElemEcho"], ElemFoxtrot |-> [xml |-> "ElemFoxtrot", pascal |-> "ElemFoxtrot"],
                     ElemAlpha |-> [xml |-> "ElemAlpha", pascal |-> "ElemAlpha"], ElemBravo |-> [xml |-> "ElemBravo", pascal |-> "ElemBravo"],
                     ElemCharlie |-> [xml |-> "ElemCharlie", pascal |-> "ElemCharlie"], ElemDelta |-> [xml |-> "ElemDelta", pascal |-> "ElemDelta"]],
          uris |-> [Ualpha |-> [uri |-> "http://zv.test/c11/alpha"],
                    Ubravo |-> [uri |-> "http://zv.test/c11/bravo"],
                    Ucharlie |-> [uri |-> "http://zv.test/c11/charlie"],
                    Udelta |-> [uri |-> "http://zv.test/c11/delta"],
                    Uecho |-> [uri |-> "http://zv.test/c11/echo"], Ufoxtrot |-> [uri |-> "http://zv.test/c11/foxtrot"],
                    Uext |-> [uri |-> "http://zv.test/c11/external"],
                    XSD |-> [uri |-> "http://www.w3.org/2001/XMLSchema"]]]
ASSUME PrintT(<<"VOCAB", ToJson(Vocab)>>)

MkG(sel, ex) == [f \in File |-> SelectSeq(FileSeq, LAMBDA x : x \in sel[f]) \o ex[f]]

MCInit == /\ g \in {MkG(sel, ex) : sel \in [File -> SUBSET File], ex \in [File -> Extras]}
          /\ start \in File
          /\ InitRest

MCSpec == MCInit /\ [][Next]_vars /\ Fair

\* beyond the exhaustive bound: a random sample of the digraphs over more files (the constant Sample gives its size)
CONSTANT Sample
FileSeq6 == <<"f1.xsd", "f2.xsd", "f3.xsd", "f4.xsd", "f5.xsd", "f6.xsd">>
MCInitRandom == /\ g \in {MkG(sel, [f \in File |-> <<>>]) : sel \in RandomSubset(Sample, [File -> SUBSET File])}
                /\ start \in File
                /\ InitRest
MCSpecRandom == MCInitRandom /\ [][Next]_vars /\ Fair

\* every ACYCLIC import digraph (the shapes of real schema sets: chains, diamonds, shared leaves at different depths), exhaustively
SuccOf(sel, X) == UNION {sel[f] : f \in X}
RECURSIVE ReachN(_, _, _)
ReachN(sel, X, n) == IF n = 0 THEN X ELSE ReachN(sel, X \cup SuccOf(sel, X), n - 1)
Acyclic(sel) == \A f \in File : f \notin ReachN(sel, sel[f], Cardinality(File))
MCInitDag == /\ g \in {MkG(sel, [f \in File |-> <<>>]) : sel \in {x \in [File -> SUBSET File] : Acyclic(x)}}
             /\ start \in File
             /\ InitRest
MCSpecDag == MCInitDag /\ [][Next]_vars /\ Fair

ImportItem(t) == CASE t \in File -> [k |-> "import", ns |-> UriOf[t], loc |-> t]
                   [] t = "wk" -> [k |-> "import", ns |-> "XSD", loc |-> "xml.xsd"]
                   [] t = "noloc" -> [k |-> "import", ns |-> "Uext"]
                   [] OTHER -> [k |-> "import", ns |-> "Uext", loc |-> "nowhere.xsd"]

Member == [k |-> "el", n |-> "value", ty |-> [k |-> "builtin", n |-> "string"], min |-> 1, max |-> "1"]
PrefixOf == [f \in AllFiles |->
               CASE f = "f1.xsd" -> "pa" [] f = "f2.xsd" -> "pb" [] f = "f3.xsd" -> "pc" [] f = "f4.xsd" -> "pd" [] f = "f5.xsd" -> "pe" [] OTHER -> "pf"]
ElemOf == [f \in AllFiles |->
               CASE f = "f1.xsd" -> "ElemAlpha" [] f = "f2.xsd" -> "ElemBravo" [] f = "f3.xsd" -> "ElemCharlie" [] f = "f4.xsd" -> "ElemDelta"
                 [] f = "f5.xsd" -> "ElemEcho" [] OTHER -> "ElemFoxtrot"]
\* with RefsOn the type of a file refers to the global element of every other file it imports directly
RefTargets(f) == SelectSeq(FileSeq, LAMBDA t : t # f /\ \E i \in 1..Len(g[f]) : g[f][i] = t)
RefMembers(f) == IF RefsOn THEN [i \in 1..Len(RefTargets(f)) |->
                                   [k |-> "ref", ref |-> [p |-> PrefixOf[RefTargets(f)[i]], n |-> ElemOf[RefTargets(f)[i]]], min |-> 0, max |-> "1"]]
                 ELSE <<>>
TypeItem(f) == [k |-> "complex", n |-> TypeOf[f],
                content |-> << [k |-> "seq", min |-> 1, max |-> "1", ps |-> <<Member>> \o RefMembers(f)] >>, attrs |-> <<>>]
ElemItem(f) == [k |-> "element", n |-> ElemOf[f], inline |-> [content |-> << [k |-> "seq", min |-> 1, max |-> "1", ps |-> <<Member>>] >>, attrs |-> <<>>]]

FileRec(f) == [name |-> f, kind |-> "xsd", tns |-> UriOf[f],
               xmlns |-> IF RefsOn THEN [i \in 1..Len(FileSeq) |-> <<PrefixOf[FileSeq[i]], UriOf[FileSeq[i]]>>] ELSE <<>>,
               items |-> [i \in 1..Len(g[f]) |-> ImportItem(g[f][i])] \o (IF RefsOn THEN <<ElemItem(f)>> ELSE <<>>) \o <<TypeItem(f)>>]

CaseOf == [prop |-> "C11", drv |-> "c11", start |-> start, g |-> g,
           files |-> [i \in 1..Len(FileSeq) |-> FileRec(FileSeq[i])],
           types |-> [f \in File |-> TypeOf[f]],
           siblings |-> Siblings, ncalls |-> MaxCalls, refs |-> RefsOn]

EmitCase == (pc = "idle" /\ calls = 0) => PrintT(<<"CASE", ToJson(CaseOf)>>)
=======================================================================
