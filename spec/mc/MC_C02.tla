--------------------------- MODULE MC_C02 ---------------------------
(***************************************************************************)
(* C02 on the model: for every type shape of the bounded space the          *)
(* operational walk of Build (with no deviation) yields exactly the field   *)
(* list the declarative Members/EffOcc semantics of Schema demands.         *)
(* Every shape is printed as a CASE: a two-file schema set whose focus type *)
(* holds the member(s) under test.                                          *)
(*   Slice "builtins": each of the 27 builtins x min x max (plain sequence) *)
(*   Slice "positions": named complex/simple type of the same / another     *)
(*          namespace, a ref, a builtin x min x max x position (sequence,    *)
(*          nested sequence followed by a sibling, choice, sequence inside   *)
(*          an outer sequence) x occurrence of the enclosing sequence x      *)
(*          helper types declared before / after the focus type             *)
(*   Slice "attrs": attributes optional / required next to an element       *)
(*   Slice "pairs": two members drawn from a 10-variant set, both orders    *)
(***************************************************************************)
EXTENDS Build, Json

CONSTANTS Dev, Slice
VARIABLE c      \* the case: [content, attrs, order]
vars == <<c>>

B(n) == [k |-> "builtin", n |-> n]
T(p, n) == [k |-> "named", p |-> p, n |-> n]
El(n, ty, min, max) == [k |-> "el", n |-> n, ty |-> ty, min |-> min, max |-> max]
Ref(p, n, min, max) == [k |-> "ref", ref |-> [p |-> p, n |-> n], min |-> min, max |-> max]
SeqP(min, max, ps) == [k |-> "seq", min |-> min, max |-> max, ps |-> ps]
ChoiceP(ps) == [k |-> "choice", ps |-> ps]
Mins == {0, 1}
Maxs == {"1", "n", "unb"}
Tail1 == El("tailMember", B("boolean"), 1, "1")
Alt == El("altBranch", B("int"), 1, "1")

\* member under test
Subjects == {El("subjectMember", ty, mn, mx) : ty \in {B("string"), T("t", "OtherType"), T("t", "CodeType"), T("o", "FarType")}, mn \in Mins, mx \in Maxs}
            \cup {Ref("t", "GlobalThing", mn, mx) : mn \in Mins, mx \in Maxs}

Position(p, omin, omax) ==
  { << SeqP(omin, omax, <<p>>) >>,                                         \* plain sequence
    << SeqP(1, "1", << SeqP(omin, omax, <<p>>), Tail1 >>) >>,              \* nested sequence followed by a sibling
    << SeqP(omin, omax, << ChoiceP(<<p, Alt>>), Tail1 >>) >>,              \* choice branch
    << SeqP(omin, omax, << SeqP(1, "1", <<p>>) >>) >>,                     \* the occurrence sits on the OUTER sequence
    << SeqP(1, "1", << ChoiceP(<< SeqP(1, "1", <<p>>), Alt >>) >>) >> }    \* sequence inside a choice

BuiltinCases == {[content |-> << SeqP(1, "1", << El("subjectMember", B(b), mn, mx) >>) >>, attrs |-> <<>>, order |-> "before"] :
                   b \in Builtins, mn \in Mins, mx \in Maxs}
PositionCases == {[content |-> ct, attrs |-> <<>>, order |-> o] :
                   ct \in UNION {Position(p, omin, omax) : p \in Subjects, omin \in Mins, omax \in Maxs}, o \in {"before", "after"}}
AttrCases == {[content |-> ct, attrs |-> << [k |-> "attr", n |-> "subjectAttr", ty |-> B(b), use |-> u] >> \o more, order |-> "before"] :
                   ct \in {<<>>, << SeqP(1, "1", <<Tail1>>) >>}, b \in {"string", "int", "boolean", "long", "dateTime", "unsignedByte"},
                   u \in {"opt", "req"}, more \in {<<>>, << [k |-> "attr", n |-> "otherAttr", ty |-> B("string"), use |-> "opt"] >>}}
PairSet == {El("firstMember", B("string"), 1, "1"), El("firstMember", B("long"), 0, "unb"), El("firstMember", T("t", "OtherType"), 0, "1"),
            Ref("t", "GlobalThing", 1, "n"), SeqP(0, "1", << El("innerMember", B("int"), 1, "1") >>),
            ChoiceP(<< El("leftBranch", B("string"), 1, "1"), El("rightBranch", T("t", "CodeType"), 1, "1") >>),
            SeqP(1, "unb", << El("repeatedMember", B("string"), 1, "1") >>)}
Rename(p) == IF p.k = "el" /\ p.n = "firstMember" THEN [p EXCEPT !.n = "secondMember"] ELSE p
PairCases == {x \in {[content |-> << SeqP(1, "1", <<a, b>>) >>, attrs |-> <<>>, order |-> "before"] :
                                 a \in PairSet, b \in {Rename(y) : y \in PairSet}} :
                   x.content[1].ps[1] # x.content[1].ps[2]}

\* two and three levels of nesting, every combination of the occurrences of the outer and the inner sequence
NestSubjects == {El("subjectMember", B("string"), 1, "1"), El("subjectMember", T("t", "OtherType"), 0, "1"), El("subjectMember", B("string"), 1, "unb")}
NestedCases == {[content |-> ct, attrs |-> <<>>, order |-> "before"] :
                  ct \in UNION {{ << SeqP(omin, omax, << SeqP(imin, imax, <<p>>), Tail1 >>) >>,
                                   << SeqP(omin, omax, << SeqP(1, "1", << SeqP(imin, imax, <<p>>) >>) >>) >>,
                                   << SeqP(omin, omax, << ChoiceP(<< SeqP(imin, imax, <<p>>), Alt >>) >>) >> } :
                                 p \in NestSubjects, omin \in Mins, omax \in Maxs, imin \in Mins, imax \in Maxs}}

\* thorough: every builtin in every position, and member triples
AllBuiltinSubjects(u) == {El("subjectMember", B(b), mn, mx) : b \in Builtins, mn \in Mins, mx \in Maxs}
PositionAllCases(u) == {[content |-> ct, attrs |-> <<>>, order |-> "before"] :
                       ct \in UNION {Position(p, omin, omax) : p \in AllBuiltinSubjects(u), omin \in Mins, omax \in Maxs}}
TripleSet == {El("firstMember", B("string"), 1, "1"), El("firstMember", T("t", "OtherType"), 0, "unb"), Ref("t", "GlobalThing", 0, "1"),
              SeqP(0, "unb", << El("innerMember", B("int"), 1, "1") >>),
              ChoiceP(<< El("leftBranch", B("string"), 1, "1"), El("rightBranch", B("long"), 0, "1") >>)}
Rename3(p) == IF p.k = "el" /\ p.n = "firstMember" THEN [p EXCEPT !.n = "tailMember"] ELSE p
TripleCases(u) == {x \in {[content |-> << SeqP(1, "1", <<a, b, d>>) >>, attrs |-> <<>>, order |-> "before"] :
                          a \in TripleSet, b \in {Rename(y) : y \in TripleSet}, d \in {Rename3(y) : y \in TripleSet}} :
                  /\ x.content[1].ps[1] # x.content[1].ps[2] /\ x.content[1].ps[2] # x.content[1].ps[3] /\ x.content[1].ps[1] # x.content[1].ps[3]
                  /\ Cardinality({x.content[1].ps[i].k : i \in 1..3} \cap {"ref"}) + Cardinality({i \in 1..3 : x.content[1].ps[i].k = "ref"}) <= 2
                  /\ Cardinality({i \in 1..3 : x.content[1].ps[i].k = "seq"}) <= 1 /\ Cardinality({i \in 1..3 : x.content[1].ps[i].k = "choice"}) <= 1}

\* Slice "recursive": the focus type extends RecBase, which refers (ref=) to the global element RecKid, whose anonymous
\* type extends RecBase again (a tree); the three stand in each of the 6 orders, so that each of them is reached through a
\* forward reference while another one is still being converted; optionally preceded by a type that contains itself
\* through type= and by a ping-pong of two global elements
RecBase == [k |-> "complex", n |-> "RecBase", base |-> None,
            content |-> << SeqP(1, "1", << El("baseTitle", B("string"), 1, "1"), Ref("t", "RecKid", 0, "unb") >>) >>,
            attrs |-> << [k |-> "attr", n |-> "baseId", ty |-> B("string"), use |-> "opt"] >>]
RecKid == [k |-> "element", n |-> "RecKid",
           inline |-> [base |-> T("t", "RecBase"), content |-> << SeqP(1, "1", << El("kidOwner", B("string"), 1, "1") >>) >>, attrs |-> <<>>]]
RecFocus == [k |-> "complex", n |-> "FocusType", base |-> T("t", "RecBase"),
             content |-> << SeqP(1, "1", << El("subjectMember", B("boolean"), 0, "1") >>) >>, attrs |-> <<>>]
LinkType == [k |-> "complex", n |-> "LinkType", base |-> None,
             content |-> << SeqP(1, "1", << El("linkValue", B("int"), 1, "1"), El("linkNext", T("t", "LinkType"), 0, "1") >>) >>, attrs |-> <<>>]
PingPong == << [k |-> "complex", n |-> "PingType", base |-> None, content |-> << SeqP(1, "1", << Ref("t", "PongEl", 0, "1") >>) >>, attrs |-> <<>>],
               [k |-> "element", n |-> "PongEl", inline |-> [content |-> << SeqP(1, "1", << El("pongValue", B("string"), 1, "1"), Ref("t", "PingEl", 0, "1") >>) >>, attrs |-> <<>>]],
               [k |-> "element", n |-> "PingEl", ty |-> T("t", "PingType")] >>
\* the cycle passes through an extension: RecBase refers to the element RecKid2, whose type extends RecMid, which extends
\* RecBase; RecLate extends RecMid too; all 120 orders of the five components (which of them is reached first, through
\* which forward reference, while which other one is being converted)
RecBase2 == [k |-> "complex", n |-> "RecBase", base |-> None,
             content |-> << SeqP(1, "1", << El("baseTitle", B("string"), 1, "1"), Ref("t", "RecKid", 0, "unb") >>) >>, attrs |-> <<>>]
RecKid2 == [k |-> "element", n |-> "RecKid",
            inline |-> [base |-> T("t", "RecMid"), content |-> << SeqP(1, "1", << El("kidOwner", B("string"), 1, "1") >>) >>, attrs |-> <<>>]]
RecMid == [k |-> "complex", n |-> "RecMid", base |-> T("t", "RecBase"),
           content |-> << SeqP(1, "1", << El("midItem", B("string"), 1, "1") >>) >>, attrs |-> <<>>]
RecLate == [k |-> "complex", n |-> "RecLate", base |-> T("t", "RecMid"),
            content |-> << SeqP(1, "1", << El("lateItem", B("string"), 1, "1") >>) >>, attrs |-> <<>>]
RecFive == <<RecFocus, RecLate, RecBase2, RecKid2, RecMid>>
Perms5 == {p \in [1..5 -> 1..5] : \A i, j \in 1..5 : i # j => p[i] # p[j]}
MidCases == {[items |-> [i \in 1..5 |-> RecFive[pm[i]]], content |-> RecFocus.content, attrs |-> <<>>, order |-> "before"] : pm \in Perms5}
Perms3 == {<<1, 2, 3>>, <<1, 3, 2>>, <<2, 1, 3>>, <<2, 3, 1>>, <<3, 1, 2>>, <<3, 2, 1>>}
RecTriple == <<RecFocus, RecBase, RecKid>>
RecursiveCases == {[items |-> (CASE e = "self" -> <<LinkType>> [] e = "mutual" -> PingPong [] OTHER -> <<>>)
                               \o << RecTriple[pm[1]], RecTriple[pm[2]], RecTriple[pm[3]] >>,
                    content |-> RecFocus.content, attrs |-> <<>>, order |-> "before"] : pm \in Perms3, e \in {"none", "self", "mutual"}}
                  \cup MidCases

\* Slice "toplevel": the whole content of the type is a choice (no enclosing sequence), with its own occurrence;
\* branches: builtin, named type, reference, a nested sequence; with and without attributes
ChoiceO(min, max, ps) == [k |-> "choice", min |-> min, max |-> max, ps |-> ps]
TopBranches == { << El("leftBranch", B("string"), 1, "1"), El("rightBranch", B("long"), 1, "1") >>,
                 << El("leftBranch", T("t", "OtherType"), 1, "1"), Ref("t", "GlobalThing", 1, "1"), El("rightBranch", T("o", "FarType"), 0, "unb") >>,
                 << El("leftBranch", B("int"), 1, "n"), SeqP(1, "1", << El("innerMember", B("string"), 1, "1"), El("tailMember", B("boolean"), 0, "1") >>) >> }
AllO(min, ps) == [k |-> "all", min |-> min, max |-> "1", ps |-> ps]
AllMembers == { << El("leftBranch", B("string"), 1, "1"), El("rightBranch", B("long"), 0, "1") >>,
                << El("leftBranch", T("t", "OtherType"), 0, "1"), Ref("t", "GlobalThing", 1, "1"), El("rightBranch", T("o", "FarType"), 1, "1") >> }
TopAttrs == {<<>>, << [k |-> "attr", n |-> "subjectAttr", ty |-> B("string"), use |-> "req"] >>}
TopLevelCases == {[content |-> << ChoiceO(mn, mx, br) >>, attrs |-> at, order |-> o] :
                    mn \in Mins, mx \in Maxs, br \in TopBranches, o \in {"before", "after"}, at \in TopAttrs}
                 \cup {[content |-> << AllO(mn, ms) >>, attrs |-> at, order |-> o] :
                    mn \in Mins, ms \in AllMembers, o \in {"before", "after"}, at \in TopAttrs}

\* Slice "homonym": OtherType exists in the near AND in the imported namespace (different members); the focus type
\* extends one of them and has a member typed by one of them; the near namespace is optionally the default namespace
\* and then referred to without a prefix
FarOther == [k |-> "complex", n |-> "OtherType", base |-> None,
             content |-> << SeqP(1, "1", << El("farValue", B("string"), 1, "1") >>) >>, attrs |-> <<>>]
HomonymCases == {[content |-> << SeqP(1, "1", << El("subjectMember", T(pm, "OtherType"), 0, "1"), Tail1 >>) >>, attrs |-> <<>>, order |-> o,
                  base |-> T(pb, "OtherType"), dflt |-> TRUE, farother |-> TRUE] :
                    pm \in {"t", "o", ""}, pb \in {"t", "o", ""}, o \in {"before", "after"}}

\* Slice "form": the form of local elements - the schema's default (qualified / XSD's default: unqualified) x the form
\* attribute of the member (absent / qualified / unqualified) x what the member is (builtin, named type, nested in a sequence)
FormEl(ty, fo) == IF fo = "none" THEN El("subjectMember", ty, 1, "1") ELSE [k |-> "el", n |-> "subjectMember", ty |-> ty, min |-> 1, max |-> "1", form |-> fo]
FormCases == {[content |-> << SeqP(1, "1", IF nest THEN << SeqP(0, "1", << FormEl(ty, fo) >>), Tail1 >> ELSE << FormEl(ty, fo), Ref("t", "GlobalThing", 0, "1"), Tail1 >>) >>,
               attrs |-> <<>>, order |-> "before"] @@ (IF unq THEN [unqualified |-> TRUE] ELSE [dummyq |-> TRUE]) :
                 ty \in {B("string"), T("t", "OtherType"), T("o", "FarType")}, fo \in {"none", "qualified", "unqualified"}, nest \in BOOLEAN, unq \in BOOLEAN}

\* Slice "annotated": xs:annotation where XSD allows it besides the head of the type: as first child of the sequence, of a
\* nested sequence, of a choice, of an all group, of xs:extension (open finding D43: the type is dropped)
Doc(p) == p @@ [doc |-> "note on the group"]
AnnContents == { << Doc(SeqP(1, "1", << El("subjectMember", B("string"), 1, "1"), Tail1 >>)) >>,
                 << SeqP(1, "1", << El("subjectMember", B("string"), 1, "1"), Doc(SeqP(0, "1", << El("innerMember", T("t", "OtherType"), 1, "1") >>)), Tail1 >>) >>,
                 << SeqP(1, "1", << El("subjectMember", B("int"), 0, "unb"), Doc(ChoiceO(1, "1", << El("leftBranch", B("string"), 1, "1"), El("rightBranch", B("long"), 1, "1") >>)) >>) >>,
                 << Doc(ChoiceO(1, "1", << El("leftBranch", B("string"), 1, "1"), El("rightBranch", T("o", "FarType"), 1, "1") >>)) >>,
                 << Doc(AllO(1, << El("leftBranch", B("string"), 1, "1"), El("rightBranch", B("long"), 0, "1") >>)) >> }
AnnotatedCases == {[content |-> ct, attrs |-> at, order |-> o] : ct \in AnnContents, at \in TopAttrs, o \in {"before", "after"}}
                  \cup {[content |-> << SeqP(1, "1", << El("subjectMember", B("string"), 1, "1") >>) >>, attrs |-> at, order |-> o,
                         base |-> T("t", "OtherType"), ext_doc |-> "note on the extension"] : at \in TopAttrs, o \in {"before", "after"}}

Space == CASE Slice = "builtins" -> BuiltinCases
           [] Slice = "annotated" -> AnnotatedCases
           [] Slice = "form" -> FormCases
           [] Slice = "homonym" -> HomonymCases
           [] Slice = "toplevel" -> TopLevelCases
           [] Slice = "recursive" -> RecursiveCases
           [] Slice = "positions_all" -> PositionAllCases(0)
           [] Slice = "triples" -> TripleCases(0)
           [] Slice = "nested" -> NestedCases
           [] Slice = "positions" -> PositionCases
           [] Slice = "attrs" -> AttrCases
           [] OTHER -> PairCases

---------------------------------------------------------------------------
(* the schema set around the focus type *)
Helpers == << [k |-> "complex", n |-> "OtherType", base |-> None,
               content |-> << SeqP(1, "1", << El("otherValue", B("string"), 1, "1") >>) >>, attrs |-> <<>>],
              [k |-> "simple", n |-> "CodeType", base |-> B("string"), facets |-> << <<"maxLen", 8>> >>],
              [k |-> "element", n |-> "GlobalThing", inline |-> [content |-> << SeqP(1, "1", << El("thingValue", B("int"), 1, "1") >>) >>, attrs |-> <<>>]] >>
Focus(x) == [k |-> "complex", n |-> "FocusType", base |-> IF "base" \in DOMAIN x THEN x.base ELSE None, content |-> x.content, attrs |-> x.attrs]
            @@ (IF "ext_doc" \in DOMAIN x THEN [ext_doc |-> x.ext_doc] ELSE [k |-> "complex"])
File1(x) == [name |-> "f1.xsd", kind |-> "xsd", tns |-> "Unear",
             xmlns |-> << <<"t", "Unear">>, <<"o", "Ufar">> >> \o (IF "dflt" \in DOMAIN x THEN << <<"", "Unear">> >> ELSE <<>>),
             items |-> << [k |-> "import", ns |-> "Ufar", loc |-> "f2.xsd"] >>
                       \o (IF "items" \in DOMAIN x THEN x.items
                           ELSE IF x.order = "before" THEN Helpers \o <<Focus(x)>> ELSE <<Focus(x)>> \o Helpers)]
File2(x) == [name |-> "f2.xsd", kind |-> "xsd", tns |-> "Ufar", xmlns |-> << <<"o", "Ufar">> >>,
             items |-> << [k |-> "complex", n |-> "FarType", base |-> None,
                           content |-> << SeqP(1, "1", << El("farValue", B("string"), 1, "1") >>) >>, attrs |-> <<>>] >>
                       \o (IF "farother" \in DOMAIN x THEN <<FarOther>> ELSE <<>>)]
File1F(x) == IF "unqualified" \in DOMAIN x THEN File1(x) @@ [unqualified |-> TRUE] ELSE File1(x)
SetOf(x) == [files |-> <<File1F(x), File2(x)>>, start |-> "f1.xsd"]

MCInit == c \in Space
MCSpec == MCInit /\ [][UNCHANGED c]_vars

FocusComp(S) == CHOOSE t \in TypesOf(S) : t.n = "FocusType"

\* C02 at design level: operational = declarative on every shape, and nothing is dropped
Agreement ==
  (Dev = {}) => LET S == SetOf(c)
                    fc == FocusComp(S)
                    f == FileNamed(S, "f1.xsd")
                IN /\ ~Dropped(S, fc, {})
                   /\ FieldViol(ExpFields(S, f, fc.it, fc.it), BuiltFields(S, f, fc.it, fc.it, 8, {})) = {}
\* the same under the deviations of Dev (no guard): used by `lib/selftest.py devs` - every as-built switch must have a witness
\* in the bounded space, i.e. some shape on which the walk with that deviation differs from the declaration
AgreementD == LET S == SetOf(c)
                  fc == FocusComp(S)
                  f == FileNamed(S, "f1.xsd")
              IN /\ ~Dropped(S, fc, Dev)
                 /\ FieldViol(ExpFields(S, f, fc.it, fc.it), BindNs(BuiltFields(S, f, fc.it, fc.it, 8, Dev), fc.ns, Dev)) = {}
\* with the listed deviations the model must predict at least the instances of its own walk (sanity of FieldViol)
Emit == PrintT(<<"CASE", ToJson([prop |-> "C02", drv |-> "gen", start |-> "f1.xsd", files |-> SetOf(c).files])>>)

N(x, p, s) == [xml |-> x, pascal |-> p, snake |-> s]
Vocab == [names |-> [RecMid |-> N("RecMid", "RecMid", "rec_mid"), RecLate |-> N("RecLate", "RecLate", "rec_late"),
                     midItem |-> N("midItem", "MidItem", "mid_item"), lateItem |-> N("lateItem", "LateItem", "late_item"),
                     RecBase |-> N("RecBase", "RecBase", "rec_base"), RecKid |-> N("RecKid", "RecKid", "rec_kid"),
                     baseTitle |-> N("baseTitle", "BaseTitle", "base_title"), baseId |-> N("baseId", "BaseId", "base_id"),
                     kidOwner |-> N("kidOwner", "KidOwner", "kid_owner"), LinkType |-> N("LinkType", "LinkType", "link_type"),
                     linkValue |-> N("linkValue", "LinkValue", "link_value"), linkNext |-> N("linkNext", "LinkNext", "link_next"),
                     PingType |-> N("PingType", "PingType", "ping_type"), PongEl |-> N("PongEl", "PongEl", "pong_el"),
                     PingEl |-> N("PingEl", "PingEl", "ping_el"), pongValue |-> N("pongValue", "PongValue", "pong_value"),
                     FocusType |-> N("FocusType", "FocusType", "focus_type"), OtherType |-> N("OtherType", "OtherType", "other_type"),
                     CodeType |-> N("CodeType", "CodeType", "code_type"), FarType |-> N("FarType", "FarType", "far_type"),
                     GlobalThing |-> N("GlobalThing", "GlobalThing", "global_thing"),
                     subjectMember |-> N("subjectMember", "SubjectMember", "subject_member"),
                     tailMember |-> N("tailMember", "TailMember", "tail_member"), altBranch |-> N("altBranch", "AltBranch", "alt_branch"),
                     subjectAttr |-> N("subjectAttr", "SubjectAttr", "subject_attr"), otherAttr |-> N("otherAttr", "OtherAttr", "other_attr"),
                     firstMember |-> N("firstMember", "FirstMember", "first_member"), secondMember |-> N("secondMember", "SecondMember", "second_member"),
                     innerMember |-> N("innerMember", "InnerMember", "inner_member"), leftBranch |-> N("leftBranch", "LeftBranch", "left_branch"),
                     rightBranch |-> N("rightBranch", "RightBranch", "right_branch"), repeatedMember |-> N("repeatedMember", "RepeatedMember", "repeated_member"),
                     otherValue |-> N("otherValue", "OtherValue", "other_value"), thingValue |-> N("thingValue", "ThingValue", "thing_value"),
                     farValue |-> N("farValue", "FarValue", "far_value")],
          uris |-> [Unear |-> [uri |-> "http://zv.test/c02/near"], Ufar |-> [uri |-> "http://zv.test/c02/far"]]]
ASSUME PrintT(<<"VOCAB", ToJson(Vocab)>>)
=======================================================================
