--------------------------- MODULE MC_CR ---------------------------
(***************************************************************************)
(* The case family of the compile/run pipeline (C01, C02's typed driver,    *)
(* C03, C04, C05, C07, C16, C18).  A case is a schema set inside the        *)
(* supported subset together with                                           *)
(*   expect  the struct table Schema prescribes (names, fields, wrappers,   *)
(*           targets) - the typed driver is synthesised from it             *)
(*   roots   the components whose values are built, serialised and read     *)
(*   ops     (WSDL) the operation shapes                                    *)
(* Slices: "types" (XSD shapes) and "wsdl" (operation shapes).              *)
(***************************************************************************)
EXTENDS Wire, Json

CONSTANTS Dev, Slice, Tier
VARIABLE c
vars == <<c>>

N(x, p, s) == [xml |-> x, pascal |-> p, snake |-> s]
Names == [zbody |-> N("zbody", "Zbody", "zbody"), answer |-> N("answer", "Answer", "answer"),
                     WideText |-> N("WideText", "WideText", "wide_text"), MidText |-> N("MidText", "MidText", "mid_text"), SmallText |-> N("SmallText", "SmallText", "small_text"), small |-> N("small", "Small", "small"),
                     value |-> N("value", "Value", "value"),
                     AllRequired |-> N("AllRequired", "AllRequired", "all_required"),
                     AllOptional |-> N("AllOptional", "AllOptional", "all_optional"),
                     AllRepeated |-> N("AllRepeated", "AllRepeated", "all_repeated"),
                     FocusType |-> N("FocusType", "FocusType", "focus_type"),
                     OtherType |-> N("OtherType", "OtherType", "other_type"),
                     CodeType |-> N("CodeType", "CodeType", "code_type"),
                     FarType |-> N("FarType", "FarType", "far_type"),
                     GlobalThing |-> N("GlobalThing", "GlobalThing", "global_thing"),
                     subjectMember |-> N("subjectMember", "SubjectMember", "subject_member"),
                     tailMember |-> N("tailMember", "TailMember", "tail_member"),
                     altBranch |-> N("altBranch", "AltBranch", "alt_branch"),
                     innerMember |-> N("innerMember", "InnerMember", "inner_member"),
                     leftBranch |-> N("leftBranch", "LeftBranch", "left_branch"),
                     rightBranch |-> N("rightBranch", "RightBranch", "right_branch"),
                     keyAttr |-> N("keyAttr", "KeyAttr", "key_attr"),
                     tagAttr |-> N("tagAttr", "TagAttr", "tag_attr"),
                     BaseType |-> N("BaseType", "BaseType", "base_type"),
                     MidType |-> N("MidType", "MidType", "mid_type"),
                     LeafType |-> N("LeafType", "LeafType", "leaf_type"),
                     baseItem |-> N("baseItem", "BaseItem", "base_item"),
                     baseCount |-> N("baseCount", "BaseCount", "base_count"),
                     baseCode |-> N("baseCode", "BaseCode", "base_code"),
                     farCode |-> N("farCode", "FarCode", "far_code"),
                     FarThing |-> N("FarThing", "FarThing", "far_thing"),
                     audit |-> N("audit", "Audit", "audit"),
                     farLevel |-> N("farLevel", "FarLevel", "far_level"),
                     midItem |-> N("midItem", "MidItem", "mid_item"),
                     leafItem |-> N("leafItem", "LeafItem", "leaf_item"),
                     leafFlag |-> N("leafFlag", "LeafFlag", "leaf_flag"),
                     baseKey |-> N("baseKey", "BaseKey", "base_key"),
                     leafKey |-> N("leafKey", "LeafKey", "leaf_key"),
                     LevelType |-> N("LevelType", "LevelType", "level_type"),
                     ShortCode |-> N("ShortCode", "ShortCode", "short_code"),
                     TinyCode |-> N("TinyCode", "TinyCode", "tiny_code"),
                     NarrowLevel |-> N("NarrowLevel", "NarrowLevel", "narrow_level"),
                     RestrictedHolder |-> N("RestrictedHolder", "RestrictedHolder", "restricted_holder"),
                     level |-> N("level", "Level", "level"),
                     code |-> N("code", "Code", "code"),
                     tiny |-> N("tiny", "Tiny", "tiny"),
                     narrow |-> N("narrow", "Narrow", "narrow"),
                     levels |-> N("levels", "Levels", "levels"),
                     otherValue |-> N("otherValue", "OtherValue", "other_value"),
                     thingValue |-> N("thingValue", "ThingValue", "thing_value"),
                     farValue |-> N("farValue", "FarValue", "far_value"),
                     GetItem |-> N("GetItem", "GetItem", "get_item"),
                     GetItemResponse |-> N("GetItemResponse", "GetItemResponse", "get_item_response"),
                     PutItem |-> N("PutItem", "PutItem", "put_item"),
                     PutItemResponse |-> N("PutItemResponse", "PutItemResponse", "put_item_response"),
                     AuthHeader |-> N("AuthHeader", "AuthHeader", "auth_header"),
                     TraceHeader |-> N("TraceHeader", "TraceHeader", "trace_header"),
                     SessionHeader |-> N("SessionHeader", "SessionHeader", "session_header"),
                     token |-> N("token", "Token", "token"),
                     traceId |-> N("traceId", "TraceId", "trace_id"),
                     session |-> N("session", "Session", "session"),
                     itemId |-> N("itemId", "ItemId", "item_id"),
                     itemName |-> N("itemName", "ItemName", "item_name"),
                     result |-> N("result", "Result", "result"),
                     note |-> N("note", "Note", "note"),
                     getItem |-> N("getItem", "GetItem", "get_item"),
                     Put_item |-> N("Put_item", "PutItem", "put_item"),
                     ListItems |-> N("ListItems", "ListItems", "list_items"),
                     ListItemsResponse |-> N("ListItemsResponse", "ListItemsResponse", "list_items_response"),
                     listFilter |-> N("listFilter", "ListFilter", "list_filter"),
                     listResult |-> N("listResult", "ListResult", "list_result"),
                     Ping |-> N("Ping", "Ping", "ping"),
                     pingNote |-> N("pingNote", "PingNote", "ping_note"),
                     ItemService |-> N("ItemService", "ItemService", "item_service"),
                     ItemPort |-> N("ItemPort", "ItemPort", "item_port"),
                     ItemBinding |-> N("ItemBinding", "ItemBinding", "item_binding"),
                     parameters |-> N("parameters", "Parameters", "parameters"),
                     auth |-> N("auth", "Auth", "auth"),
                     trace |-> N("trace", "Trace", "trace"),
                     sess |-> N("sess", "Sess", "sess"),
                     bodyPart |-> N("bodyPart", "BodyPart", "body_part"),
                     request |-> N("request", "Request", "request"),
                     response |-> N("response", "Response", "response"),
                     GetFar |-> N("GetFar", "GetFar", "get_far"),
                     GetFarResponse |-> N("GetFarResponse", "GetFarResponse", "get_far_response"),
                     farArg |-> N("farArg", "FarArg", "far_arg"),
                     farResult |-> N("farResult", "FarResult", "far_result"),
                     mByte |-> N("mByte", "MByte", "m_byte"),
                     mString |-> N("mString", "MString", "m_string"),
                     mNormalizedString |-> N("mNormalizedString", "MNormalizedString", "m_normalized_string"),
                     mBaseBinary |-> N("mBaseBinary", "MBaseBinary", "m_base_binary"),
                     mHexBinary |-> N("mHexBinary", "MHexBinary", "m_hex_binary"),
                     mAnyURI |-> N("mAnyURI", "MAnyUri", "m_any_uri"),
                     mDate |-> N("mDate", "MDate", "m_date"),
                     mDateTime |-> N("mDateTime", "MDateTime", "m_date_time"),
                     mTime |-> N("mTime", "MTime", "m_time"),
                     mLanguage |-> N("mLanguage", "MLanguage", "m_language"),
                     mDuration |-> N("mDuration", "MDuration", "m_duration"),
                     mDecimal |-> N("mDecimal", "MDecimal", "m_decimal"),
                     mDouble |-> N("mDouble", "MDouble", "m_double"),
                     mFloat |-> N("mFloat", "MFloat", "m_float"),
                     mInteger |-> N("mInteger", "MInteger", "m_integer"),
                     mInt |-> N("mInt", "MInt", "m_int"),
                     mNegativeInteger |-> N("mNegativeInteger", "MNegativeInteger", "m_negative_integer"),
                     mNonNegativeInteger |-> N("mNonNegativeInteger", "MNonNegativeInteger", "m_non_negative_integer"),
                     mNonPositiveInteger |-> N("mNonPositiveInteger", "MNonPositiveInteger", "m_non_positive_integer"),
                     mPositiveInteger |-> N("mPositiveInteger", "MPositiveInteger", "m_positive_integer"),
                     mLong |-> N("mLong", "MLong", "m_long"),
                     mUnsignedLong |-> N("mUnsignedLong", "MUnsignedLong", "m_unsigned_long"),
                     mUnsignedInt |-> N("mUnsignedInt", "MUnsignedInt", "m_unsigned_int"),
                     mUnsignedShort |-> N("mUnsignedShort", "MUnsignedShort", "m_unsigned_short"),
                     mUnsignedByte |-> N("mUnsignedByte", "MUnsignedByte", "m_unsigned_byte"),
                     mShort |-> N("mShort", "MShort", "m_short"),
                     mBoolean |-> N("mBoolean", "MBoolean", "m_boolean"),
                     mToken |-> N("mToken", "MToken", "m_token"), mName |-> N("mName", "MName", "m_name"),
                     mNCName |-> N("mNCName", "MNcName", "m_nc_name"), mNmtoken |-> N("mNmtoken", "MNmtoken", "m_nmtoken"),
                     mNmtokens |-> N("mNmtokens", "MNmtokens", "m_nmtokens"), mQName |-> N("mQName", "MQName", "m_q_name"),
                     mGYear |-> N("mGYear", "MGYear", "m_g_year"), mGYearMonth |-> N("mGYearMonth", "MGYearMonth", "m_g_year_month"),
                     mGMonth |-> N("mGMonth", "MGMonth", "m_g_month"), mGMonthDay |-> N("mGMonthDay", "MGMonthDay", "m_g_month_day"),
                     mGDay |-> N("mGDay", "MGDay", "m_g_day"), mAnySimple |-> N("mAnySimple", "MAnySimple", "m_any_simple"),
                     TextHolder |-> N("TextHolder", "TextHolder", "text_holder"),
                     unit |-> N("unit", "Unit", "unit"), unitAttr |-> N("unitAttr", "UnitAttr", "unit_attr"), Unit |-> N("Unit", "Unit", "unit"),
                     Address |-> N("Address", "Address", "address"), address |-> N("address", "Address", "address"),
                     address2 |-> N("address2", "Address2", "address_2"),
                     kw_type |-> N("type", "Type", "r#type"),
                     kw_self |-> N("self", "Self_", "self_"),
                     kw_match |-> N("match", "Match", "r#match"),
                     kw_async |-> N("async", "Async", "r#async"),
                     kw_crate |-> N("crate", "Crate", "crate_")]
WideIdx(id) == {i \in 1..24 : id = "item" \o <<"A", "B", "C", "D", "E", "F", "G", "H", "I", "J", "K", "L", "M", "N", "O", "P", "Q", "R", "S", "T", "U", "V", "W", "X">>[i]}
NameRec(id) == IF id \in DOMAIN Names THEN Names[id]
               ELSE IF WideIdx(id) # {}
                    THEN LET i == CHOOSE k \in WideIdx(id) : TRUE
                         IN N(id, "Item" \o <<"A", "B", "C", "D", "E", "F", "G", "H", "I", "J", "K", "L", "M", "N", "O", "P", "Q", "R", "S", "T", "U", "V", "W", "X">>[i],
                              "item_" \o <<"a", "b", "c", "d", "e", "f", "g", "h", "i", "j", "k", "l", "m", "n", "o", "p", "q", "r", "s", "t", "u", "v", "w", "x">>[i])
                    ELSE N(id, id, id)

Lit(l, t) == [lit |-> l, text |-> t]
SLit(t) == [lit |-> "\"" \o t \o "\".to_string()", text |-> t]
TokTab == [String |-> [lo |-> Lit("String::new()", ""), hi |-> Lit("\"zz top\".to_string()", "zz top"), esc |-> Lit("\"a<b&c>\\\"d'e\".to_string()", "a<b&c>\"d'e")],
           i8 |-> [lo |-> Lit("i8::MIN", "-128"), hi |-> Lit("i8::MAX", "127"), esc |-> Lit("-1i8", "-1")],
           i16 |-> [lo |-> Lit("i16::MIN", "-32768"), hi |-> Lit("i16::MAX", "32767"), esc |-> Lit("-1i16", "-1")],
           i32 |-> [lo |-> Lit("i32::MIN", "-2147483648"), hi |-> Lit("i32::MAX", "2147483647"), esc |-> Lit("-1i32", "-1")],
           i64 |-> [lo |-> Lit("i64::MIN", "-9223372036854775808"), hi |-> Lit("i64::MAX", "9223372036854775807"), esc |-> Lit("-1i64", "-1")],
           u8 |-> [lo |-> Lit("0u8", "0"), hi |-> Lit("u8::MAX", "255"), esc |-> Lit("1u8", "1")],
           u16 |-> [lo |-> Lit("0u16", "0"), hi |-> Lit("u16::MAX", "65535"), esc |-> Lit("1u16", "1")],
           u32 |-> [lo |-> Lit("0u32", "0"), hi |-> Lit("u32::MAX", "4294967295"), esc |-> Lit("1u32", "1")],
           u64 |-> [lo |-> Lit("0u64", "0"), hi |-> Lit("u64::MAX", "18446744073709551615"), esc |-> Lit("1u64", "1")],
           f32 |-> [lo |-> Lit("-1.5f32", "-1.5"), hi |-> Lit("1024.0f32", "1024"), esc |-> Lit("0.25f32", "0.25")],
           f64 |-> [lo |-> Lit("-1.5f64", "-1.5"), hi |-> Lit("1.0e10f64", "10000000000"), esc |-> Lit("0.25f64", "0.25")],
           bool |-> [lo |-> Lit("false", "false"), hi |-> Lit("true", "true"), esc |-> Lit("true", "true")],
           \* rows of XSD types whose lexical space is narrower than their carrier's: instance documents stay schema-valid
           date |-> [lo |-> SLit("0001-01-01"), hi |-> SLit("2024-02-29"), esc |-> SLit("1999-12-31Z")],
           dateTime |-> [lo |-> SLit("0001-01-01T00:00:00"), hi |-> SLit("2024-02-29T23:59:59.999Z"), esc |-> SLit("1999-12-31T12:00:00+02:00")],
           time |-> [lo |-> SLit("00:00:00"), hi |-> SLit("23:59:59.5"), esc |-> SLit("12:30:00Z")],
           duration |-> [lo |-> SLit("PT0S"), hi |-> SLit("P1Y2M3DT4H5M6S"), esc |-> SLit("-P1D")],
           anyURI |-> [lo |-> SLit(""), hi |-> SLit("urn:zv:test"), esc |-> SLit("http://zv.test/a?b=c&d=e#f")],
           language |-> [lo |-> SLit("en"), hi |-> SLit("en-GB"), esc |-> SLit("x-klingon")],
           base64Binary |-> [lo |-> SLit(""), hi |-> SLit("enYgdGVzdA=="), esc |-> SLit("QQ==")],
           hexBinary |-> [lo |-> SLit(""), hi |-> SLit("0FB7"), esc |-> SLit("00ff")],
           token |-> [lo |-> SLit(""), hi |-> SLit("zz top"), esc |-> SLit("a<b&c>d'e")],
           Name |-> [lo |-> SLit("a"), hi |-> SLit("zz:top"), esc |-> SLit("_x.y-z")],
           NCName |-> [lo |-> SLit("a"), hi |-> SLit("zz_top"), esc |-> SLit("_x.y-z")],
           NMTOKEN |-> [lo |-> SLit("1"), hi |-> SLit("zz-top"), esc |-> SLit("a.b:c")],
           NMTOKENS |-> [lo |-> SLit("a"), hi |-> SLit("a b c"), esc |-> SLit("1 2")],
           QName |-> [lo |-> SLit("a"), hi |-> SLit("zz_top"), esc |-> SLit("local")],
           gYear |-> [lo |-> SLit("0001"), hi |-> SLit("2024"), esc |-> SLit("1999Z")],
           gYearMonth |-> [lo |-> SLit("0001-01"), hi |-> SLit("2024-02"), esc |-> SLit("1999-12Z")],
           gMonth |-> [lo |-> SLit("--01"), hi |-> SLit("--12"), esc |-> SLit("--06Z")],
           gMonthDay |-> [lo |-> SLit("--01-01"), hi |-> SLit("--02-29"), esc |-> SLit("--12-31Z")],
           gDay |-> [lo |-> SLit("---01"), hi |-> SLit("---31"), esc |-> SLit("---15Z")],
           nonNegativeInteger |-> [lo |-> Lit("0i32", "0"), hi |-> Lit("i32::MAX", "2147483647"), esc |-> Lit("1i32", "1")],
           positiveInteger |-> [lo |-> Lit("1i32", "1"), hi |-> Lit("i32::MAX", "2147483647"), esc |-> Lit("2i32", "2")],
           nonPositiveInteger |-> [lo |-> Lit("i32::MIN", "-2147483648"), hi |-> Lit("0i32", "0"), esc |-> Lit("-1i32", "-1")],
           negativeInteger |-> [lo |-> Lit("i32::MIN", "-2147483648"), hi |-> Lit("-1i32", "-1"), esc |-> Lit("-2i32", "-2")]]

B(n) == [k |-> "builtin", n |-> n]
T(p, n) == [k |-> "named", p |-> p, n |-> n]
El(n, ty, min, max) == [k |-> "el", n |-> n, ty |-> ty, min |-> min, max |-> max]
Ref(p, n, min, max) == [k |-> "ref", ref |-> [p |-> p, n |-> n], min |-> min, max |-> max]
SeqP(min, max, ps) == [k |-> "seq", min |-> min, max |-> max, ps |-> ps]
ChoiceP(ps) == [k |-> "choice", ps |-> ps]
At(n, ty, use) == [k |-> "attr", n |-> n, ty |-> ty, use |-> use]
Cx(n, base, ps, attrs) == [k |-> "complex", n |-> n, base |-> base, content |-> IF ps = <<>> THEN <<>> ELSE << SeqP(1, "1", ps) >>, attrs |-> attrs]
Simple(n, base, facets) == [k |-> "simple", n |-> n, base |-> base, facets |-> facets]
Inline(ps) == [content |-> << SeqP(1, "1", ps) >>, attrs |-> <<>>]
ElemI(n, ps) == [k |-> "element", n |-> n, inline |-> Inline(ps)]
ElemT(n, ty) == [k |-> "element", n |-> n, ty |-> ty]
Imp(u, f) == [k |-> "import", ns |-> u, loc |-> f]
Xsd(name, tns, xmlns, items) == [name |-> name, kind |-> "xsd", tns |-> tns, xmlns |-> xmlns, items |-> items]

BuiltinSeq == <<"byte", "string", "normalizedString", "base64Binary", "hexBinary", "anyURI", "date", "dateTime", "time", "language", "duration",
                "decimal", "double", "float", "integer", "int", "negativeInteger", "nonNegativeInteger", "nonPositiveInteger", "positiveInteger",
                "long", "unsignedLong", "unsignedInt", "unsignedShort", "unsignedByte", "short", "boolean">>
MemberName == [byte |-> "mByte", string |-> "mString", normalizedString |-> "mNormalizedString", base64Binary |-> "mBaseBinary", hexBinary |-> "mHexBinary",
               anyURI |-> "mAnyURI", date |-> "mDate", dateTime |-> "mDateTime", time |-> "mTime", language |-> "mLanguage", duration |-> "mDuration",
               decimal |-> "mDecimal", double |-> "mDouble", float |-> "mFloat", integer |-> "mInteger", int |-> "mInt", negativeInteger |-> "mNegativeInteger",
               nonNegativeInteger |-> "mNonNegativeInteger", nonPositiveInteger |-> "mNonPositiveInteger", positiveInteger |-> "mPositiveInteger",
               long |-> "mLong", unsignedLong |-> "mUnsignedLong", unsignedInt |-> "mUnsignedInt", unsignedShort |-> "mUnsignedShort",
               unsignedByte |-> "mUnsignedByte", short |-> "mShort", boolean |-> "mBoolean"]
\* the text builtins added to the table by D35 (without ID / IDREF / ENTITY / NOTATION, whose validity is a property of the
\* whole document and cannot be kept by repeating one value)
TextSeq == <<"token", "Name", "NCName", "NMTOKEN", "NMTOKENS", "QName", "gYear", "gYearMonth", "gMonth", "gMonthDay", "gDay", "anySimpleType">>
TextMember == [token |-> "mToken", Name |-> "mName", NCName |-> "mNCName", NMTOKEN |-> "mNmtoken", NMTOKENS |-> "mNmtokens", QName |-> "mQName",
               gYear |-> "mGYear", gYearMonth |-> "mGYearMonth", gMonth |-> "mGMonth", gMonthDay |-> "mGMonthDay", gDay |-> "mGDay",
               anySimpleType |-> "mAnySimple"]
TextBuiltinMembers == [i \in 1..Len(TextSeq) |-> El(TextMember[TextSeq[i]], B(TextSeq[i]), IF i % 3 = 0 \/ i % 4 = 0 THEN 0 ELSE 1, IF i % 4 = 0 THEN "unb" ELSE "1")]
UpperL == <<"A", "B", "C", "D", "E", "F", "G", "H", "I", "J", "K", "L", "M", "N", "O", "P", "Q", "R", "S", "T", "U", "V", "W", "X">>
LowerL == <<"a", "b", "c", "d", "e", "f", "g", "h", "i", "j", "k", "l", "m", "n", "o", "p", "q", "r", "s", "t", "u", "v", "w", "x">>
WideName == [i \in 1..24 |-> "item" \o UpperL[i]]
AllBuiltins(min, max) == [i \in 1..Len(BuiltinSeq) |-> El(MemberName[BuiltinSeq[i]], B(BuiltinSeq[i]), min, max)]

NearX == << <<"t", "Unear">>, <<"o", "Ufar">> >>
FarFile == Xsd("far.xsd", "Ufar", << <<"o", "Ufar">> >>, << Cx("FarType", None, << El("farValue", B("string"), 1, "1") >>, <<>>) >>)
Helpers == << Cx("OtherType", None, << El("otherValue", B("string"), 1, "1") >>, <<>>),
              Simple("CodeType", B("string"), << <<"maxLen", 8>> >>),
              ElemI("GlobalThing", << El("thingValue", B("int"), 1, "1") >>) >>

\* ---- XSD shapes
TypeCases ==
  [builtins_req |-> << Xsd("main.xsd", "Unear", NearX, << Cx("AllRequired", None, AllBuiltins(1, "1"), <<>>) >>) >>,
   text_builtins |-> << Xsd("main.xsd", "Unear", NearX, << Cx("TextHolder", None, TextBuiltinMembers, << At("keyAttr", B("NCName"), "req"), At("tagAttr", B("token"), "opt") >>) >>) >>,
   builtins_opt |-> << Xsd("main.xsd", "Unear", NearX, << Cx("AllOptional", None, AllBuiltins(0, "1"), <<>>) >>) >>,
   builtins_vec |-> << Xsd("main.xsd", "Unear", NearX, << Cx("AllRepeated", None, AllBuiltins(0, "unb"), <<>>) >>) >>,
   positions |-> << Xsd("main.xsd", "Unear", NearX, << Imp("Ufar", "far.xsd") >> \o Helpers \o
                    << Cx("FocusType", None,
                          << El("subjectMember", T("t", "OtherType"), 1, "1"),
                             SeqP(0, "1", << El("innerMember", T("t", "CodeType"), 1, "1") >>),
                             ChoiceP(<< El("leftBranch", B("string"), 1, "1"), El("rightBranch", T("o", "FarType"), 1, "1") >>),
                             Ref("t", "GlobalThing", 0, "n"),
                             El("tailMember", B("boolean"), 1, "unb") >>,
                          << At("keyAttr", B("string"), "req"), At("tagAttr", B("int"), "opt") >>) >>), FarFile >>,
   extension_near |-> << Xsd("main.xsd", "Unear", NearX,
                    << Cx("LeafType", T("t", "MidType"), << El("leafItem", B("string"), 1, "1"), El("leafFlag", B("boolean"), 0, "1") >>, << At("leafKey", B("string"), "opt") >>),
                       Cx("MidType", T("t", "BaseType"), << El("midItem", B("long"), 0, "unb") >>, <<>>),
                       Cx("BaseType", None, << El("baseItem", B("string"), 1, "1"), El("baseCount", B("int"), 0, "1") >>, << At("baseKey", B("string"), "req") >>) >>) >>,
   extension_far |-> << Xsd("main.xsd", "Unear", NearX,
                    << Imp("Ufar", "base.xsd"),
                       Cx("LeafType", T("o", "BaseType"), << El("leafItem", B("string"), 1, "1") >>, << At("leafKey", B("string"), "opt") >>) >>),
                      Xsd("base.xsd", "Ufar", << <<"o", "Ufar">> >>,
                    << Cx("BaseType", None, << El("baseItem", B("string"), 1, "1"), El("baseCount", B("int"), 0, "1") >>, << At("baseKey", B("string"), "req") >>) >>) >>,
   \* the base type of another namespace has members of user-defined types of its own namespace (complex, simple, by reference)
   extension_far_user |-> << Xsd("main.xsd", "Unear", NearX,
                    << Imp("Ufar", "base.xsd"),
                       Cx("LeafType", T("o", "BaseType"), << El("leafItem", B("string"), 1, "1") >>, <<>>),
                       Cx("MidType", T("t", "LeafType"), << El("midItem", T("o", "FarType"), 0, "1") >>, <<>>) >>),
                      Xsd("base.xsd", "Ufar", << <<"o", "Ufar">> >>,
                    << Cx("BaseType", None, << El("baseItem", T("o", "FarType"), 1, "1"), El("baseCode", T("o", "CodeType"), 0, "1"),
                                               Ref("o", "GlobalThing", 0, "1"), El("baseCount", B("int"), 0, "1") >>, <<>>),
                       Cx("FarType", None, << El("farValue", B("string"), 1, "1") >>, <<>>),
                       Simple("CodeType", B("string"), << <<"maxLen", 8>> >>),
                       ElemI("GlobalThing", << El("thingValue", B("int"), 1, "1") >>) >>) >>,
   \* one type name in two namespaces; the near file declares its namespace as the default one and refers to ITS type
   \* without a prefix, to the imported one with a prefix
   homonym_default |-> << Xsd("main.xsd", "Unear", << <<"", "Unear">>, <<"o", "Ufar">> >>,
                    << Imp("Ufar", "base.xsd"),
                       Cx("LeafType", T("", "BaseType"), << El("leafItem", B("string"), 1, "1"), Ref("", "GlobalThing", 0, "1") >>, <<>>),
                       Cx("MidType", T("o", "BaseType"), << El("midItem", B("long"), 0, "unb"), El("farValue", T("", "CodeType"), 0, "1") >>, <<>>),
                       Cx("BaseType", None, << El("otherValue", B("string"), 1, "1") >>, << At("leafKey", B("string"), "opt") >>),
                       Simple("CodeType", B("string"), << <<"maxLen", 8>> >>),
                       ElemI("GlobalThing", << El("thingValue", B("int"), 1, "1") >>) >>),
                      Xsd("base.xsd", "Ufar", << <<"o", "Ufar">> >>,
                    << Cx("BaseType", None, << El("baseItem", B("string"), 1, "1"), El("baseCount", B("int"), 0, "1") >>, << At("baseKey", B("string"), "req") >>) >>) >>,
   \* members of TWO other namespaces in one struct: inherited from a base of Ufar, referred to in Uthird
   two_foreign |-> << Xsd("main.xsd", "Unear", << <<"t", "Unear">>, <<"o", "Ufar">>, <<"m", "Uthird">> >>,
                    << Imp("Ufar", "base.xsd"), Imp("Uthird", "third.xsd"),
                       Cx("LeafType", T("o", "BaseType"), << El("leafItem", B("string"), 1, "1"), Ref("m", "GlobalThing", 0, "1") >>, <<>>),
                       Cx("FocusType", None, << Ref("m", "GlobalThing", 1, "1"), Ref("o", "FarThing", 0, "unb"), El("tailMember", B("boolean"), 1, "1") >>, <<>>) >>),
                      Xsd("base.xsd", "Ufar", << <<"o", "Ufar">> >>,
                    << Cx("BaseType", None, << El("baseItem", B("string"), 1, "1"), El("baseCount", B("int"), 0, "1") >>, <<>>),
                       ElemI("FarThing", << El("farValue", B("string"), 1, "1") >>) >>),
                      Xsd("third.xsd", "Uthird", << <<"m", "Uthird">> >>,
                    << ElemI("GlobalThing", << El("thingValue", B("int"), 1, "1") >>) >>) >>,
   \* a file shared at two depths: main imports deep.xsd itself and, through mid.xsd and low.xsd, a file that refers to it
   deep_shared |-> << Xsd("main.xsd", "Unear", << <<"t", "Unear">>, <<"d", "Ufar">>, <<"b", "Uv1">> >>,
                    << Imp("Ufar", "deep.xsd"), Imp("Uv1", "mid.xsd"),
                       Cx("FocusType", None, << El("subjectMember", T("b", "OtherType"), 1, "1"), Ref("d", "GlobalThing", 0, "1") >>, <<>>) >>),
                      Xsd("mid.xsd", "Uv1", << <<"b", "Uv1">>, <<"c", "Uv2">> >>,
                    << Imp("Uv2", "low.xsd"),
                       Cx("OtherType", None, << El("otherValue", T("c", "FarType"), 1, "1") >>, <<>>) >>),
                      Xsd("low.xsd", "Uv2", << <<"c", "Uv2">>, <<"d", "Ufar">> >>,
                    << Imp("Ufar", "deep.xsd"),
                       Cx("FarType", None, << El("farValue", B("string"), 1, "1"), Ref("d", "GlobalThing", 0, "1") >>, <<>>) >>),
                      Xsd("deep.xsd", "Ufar", << <<"d", "Ufar">> >>,
                    << ElemI("GlobalThing", << El("thingValue", B("int"), 1, "1") >>) >>) >>,
   simple_restricted |-> << Xsd("main.xsd", "Unear", NearX,
                    << Simple("LevelType", B("int"), << <<"minInc", 1>>, <<"maxInc", 9>> >>),
                       Simple("NarrowLevel", T("t", "LevelType"), << <<"maxInc", 5>> >>),
                       Simple("ShortCode", B("string"), << <<"minLen", 2>>, <<"maxLen", 4>> >>),
                       Simple("TinyCode", B("string"), << <<"enum", "A">>, <<"enum", "BB">> >>),
                       Simple("WideText", B("string"), << <<"maxLen", 12>> >>),
                       Simple("MidText", T("t", "WideText"), << <<"minLen", 2>> >>),
                       Simple("SmallText", T("t", "MidText"), << <<"maxLen", 4>> >>),
                       Simple("Text", T("t", "WideText"), << <<"maxLen", 6>> >>),
                       Simple("PlusLevel", B("int"), << <<"minInc", 1>>, <<"maxIncPlus", 14>> >>),
                       Simple("PlusCode", B("string"), << <<"minLenPlus", 1>>, <<"maxLen", 3>> >>),
                       \* xs:length is the only facet of the type (a PIN, a fixed-width code)
                       Simple("CodeType", B("string"), << <<"len", 4>> >>),
                       Cx("RestrictedHolder", None,
                          << El("level", T("t", "LevelType"), 1, "1"), El("code", T("t", "ShortCode"), 0, "1"), El("tiny", T("t", "TinyCode"), 0, "1"),
                             El("narrow", T("t", "NarrowLevel"), 0, "1"), El("levels", T("t", "LevelType"), 0, "unb"),
                             El("small", T("t", "SmallText"), 0, "1"), El("subjectMember", T("t", "Text"), 0, "1"),
                             El("tailMember", T("t", "PlusLevel"), 0, "1"), El("innerMember", T("t", "PlusCode"), 0, "unb"),
                             El("baseCode", T("t", "CodeType"), 0, "1") >>, <<>>) >>) >>,
   three_ns |-> << Xsd("main.xsd", "Unear", << <<"t", "Unear">>, <<"o", "Ufar">> >>,
                    << Imp("Ufar", "far.xsd"),
                       Cx("FocusType", None, << El("subjectMember", B("string"), 1, "1"), Ref("o", "GlobalThing", 0, "1") >>, <<>>) >>),
                      Xsd("far.xsd", "Ufar", << <<"o", "Ufar">>, <<"m", "Uthird">> >>,
                    << Imp("Uthird", "third.xsd"), ElemT("GlobalThing", T("m", "OtherType")) >>),
                      Xsd("third.xsd", "Uthird", << <<"m", "Uthird">> >>,
                    << Cx("OtherType", None, << El("otherValue", B("string"), 1, "1") >>, <<>>) >>) >>,
   sibling_collide |-> << Xsd("main.xsd", "Unear", << <<"t", "Unear">> >>,
                    << Imp("Uv1", "v1.xsd"), Imp("Uv2", "v2.xsd"),
                       [k |-> "complex", n |-> "FocusType", base |-> None, xmlns |-> << <<"a", "Uv1">>, <<"b", "Uv2">> >>,
                        content |-> << SeqP(1, "1", << El("subjectMember", T("a", "OtherType"), 1, "1"), El("tailMember", T("b", "FarType"), 0, "1") >>) >>,
                        attrs |-> <<>>] >>),
                      Xsd("v1.xsd", "Uv1", << <<"x", "Uv1">> >>, << Cx("OtherType", None, << El("otherValue", B("string"), 1, "1") >>, <<>>) >>),
                      Xsd("v2.xsd", "Uv2", << <<"x", "Uv2">> >>, << Cx("FarType", None, << El("farValue", B("string"), 1, "1") >>, <<>>) >>) >>,
   \* members whose field names coincide: element and attribute of one name, names that differ in case only, a third member
   \* whose own name is what the suffix rule would produce, an inherited element against an own attribute; the later
   \* members are of restricted types, so that C07 has something to find in them
   name_clash |-> << Xsd("main.xsd", "Unear", NearX,
                    << Simple("ShortCode", B("string"), << <<"minLen", 2>>, <<"maxLen", 4>> >>),
                       Simple("LevelType", B("int"), << <<"minInc", 1>>, <<"maxInc", 9>> >>),
                       Cx("FocusType", None,
                          << El("unit", B("string"), 1, "1"), El("unitAttr", B("string"), 0, "1"), El("Address", B("string"), 1, "1"),
                             El("address", T("t", "ShortCode"), 0, "1"), El("address2", B("int"), 0, "1"), El("Unit", T("t", "LevelType"), 0, "unb") >>,
                          << At("unit", B("string"), "opt"), At("address", B("string"), "opt") >>),
                       Cx("BaseType", None, << El("code", B("string"), 1, "1"), El("baseItem", B("string"), 0, "1") >>, << At("baseKey", B("string"), "opt") >>),
                       Cx("LeafType", T("t", "BaseType"), << El("leafItem", T("t", "ShortCode"), 1, "1"), El("baseKey", B("int"), 0, "1") >>, << At("code", B("string"), "opt") >>) >>) >>,
   \* a derived type with more than 20 members whose base has attributes (order of members, base first)
   wide_extension |-> << Xsd("main.xsd", "Unear", NearX,
                    << Cx("BaseType", None, [i \in 1..12 |-> El(WideName[i], B(IF i % 2 = 0 THEN "string" ELSE "int"), IF i % 3 = 0 THEN 0 ELSE 1, "1")],
                          << At("baseKey", B("string"), "req"), At("tagAttr", B("int"), "opt") >>),
                       Cx("LeafType", T("t", "BaseType"), [i \in 1..12 |-> El(WideName[12 + i], B(IF i % 2 = 0 THEN "boolean" ELSE "string"), IF i % 4 = 0 THEN 0 ELSE 1, "1")],
                          << At("leafKey", B("string"), "opt") >>) >>) >>,
   \* element forms: main.xsd leaves elementFormDefault at XSD's default (unqualified) and overrides it on one element;
   \* it extends a type of a qualified file and is used by none; form.xsd is qualified and overrides one element the other way
   unqualified_form |-> << Xsd("main.xsd", "Unear", NearX,
                    << Imp("Ufar", "form.xsd"),
                       Cx("OtherType", None, << El("otherValue", B("string"), 1, "1") >>, <<>>),
                       ElemI("GlobalThing", << El("thingValue", B("int"), 1, "1") >>),
                       Cx("FocusType", None,
                          << El("subjectMember", T("t", "OtherType"), 1, "1"),
                             [k |-> "el", n |-> "innerMember", ty |-> B("string"), min |-> 0, max |-> "1", form |-> "qualified"],
                             Ref("t", "GlobalThing", 0, "1"),
                             El("tailMember", B("boolean"), 1, "unb") >>,
                          << At("keyAttr", B("string"), "req") >>),
                       Cx("LeafType", T("o", "BaseType"), << El("leafItem", B("string"), 1, "1"), El("farValue", T("o", "FarType"), 0, "1") >>, <<>>) >>)
                      @@ [unqualified |-> TRUE],
                      Xsd("form.xsd", "Ufar", << <<"o", "Ufar">> >>,
                    << Cx("BaseType", None, << El("baseItem", B("string"), 1, "1"),
                                               [k |-> "el", n |-> "baseCount", ty |-> B("int"), min |-> 0, max |-> "1", form |-> "unqualified"] >>, <<>>),
                       Cx("FarType", None, << El("farValue", B("string"), 1, "1") >>, <<>>) >>) >>,
   \* a sequence as a branch of a choice: as the whole content of a type, and below a sequence
   choice_seq |-> << Xsd("main.xsd", "Unear", NearX,
                    << [k |-> "complex", n |-> "FocusType", base |-> None,
                        content |-> << [k |-> "choice", min |-> 1, max |-> "1",
                                        ps |-> << El("leftBranch", B("string"), 1, "1"),
                                                  SeqP(1, "1", << El("innerMember", B("string"), 1, "1"), El("tailMember", B("int"), 1, "1") >>) >>] >>,
                        attrs |-> <<>>],
                       Cx("LeafType", None,
                          << El("leafItem", B("string"), 1, "1"),
                             ChoiceP(<< El("rightBranch", B("string"), 1, "1"),
                                        SeqP(1, "1", << El("baseItem", B("string"), 1, "1"), El("baseCount", B("int"), 1, "1") >>) >>) >>, <<>>) >>) >>,
   \* XML scoping of prefixes: a component of an imported file and a component of the importer declare the SAME prefix
   \* for different namespaces, each on the component itself
   prefix_scoped |-> << Xsd("main.xsd", "Unear", << <<"t", "Unear">> >>,
                    << Imp("Uv1", "v1.xsd"), Imp("Uv2", "v2.xsd"),
                       [k |-> "complex", n |-> "FocusType", base |-> None, xmlns |-> << <<"n", "Uv2">> >>,
                        content |-> << SeqP(1, "1", << El("subjectMember", T("n", "FarType"), 1, "1"), El("tailMember", B("boolean"), 0, "1") >>) >>,
                        attrs |-> <<>>],
                       [k |-> "complex", n |-> "LeafType", base |-> None, xmlns |-> << <<"n", "Uv1">> >>,
                        content |-> << SeqP(1, "1", << El("leafItem", T("n", "OtherType"), 0, "1") >>) >>, attrs |-> <<>>],
                       \* the element binds n to one namespace, its anonymous type re-binds it to the other
                       [k |-> "element", n |-> "GlobalThing", xmlns |-> << <<"n", "Uv1">> >>,
                        inline |-> [xmlns |-> << <<"n", "Uv2">> >>, attrs |-> <<>>,
                                    content |-> << SeqP(1, "1", << El("thingValue", T("n", "FarType"), 1, "1") >>) >>]] >>),
                      Xsd("v1.xsd", "Uv1", << <<"x", "Uv1">> >>,
                    << [k |-> "complex", n |-> "OtherType", base |-> None, xmlns |-> << <<"n", "Uv1">> >>,
                        content |-> << SeqP(1, "1", << El("otherValue", B("string"), 1, "1"), El("midItem", T("n", "MidType"), 0, "1") >>) >>, attrs |-> <<>>],
                       Cx("MidType", None, << El("baseItem", B("string"), 1, "1") >>, <<>>) >>),
                      Xsd("v2.xsd", "Uv2", << <<"x", "Uv2">> >>, << Cx("FarType", None, << El("farValue", B("string"), 1, "1") >>, <<>>) >>) >>,
   \* a namespace whose abbreviation would begin with "xml" (http://www.w3.org/2000/09/xmldsig# is the everyday one): XML
   \* reserves such prefixes, a document that binds one is not namespace-well-formed (D42)
   reserved_prefix |-> << Xsd("main.xsd", "Unear", << <<"t", "Unear">>, <<"o", "Uxml">> >>,
                    << Imp("Uxml", "dsig.xsd"),
                       Cx("FocusType", None, << El("subjectMember", T("o", "OtherType"), 1, "1"), El("tailMember", B("string"), 0, "1") >>, <<>>) >>),
                      Xsd("dsig.xsd", "Uxml", << <<"x", "Uxml">> >>,
                    << Cx("OtherType", None, << El("otherValue", B("string"), 1, "1") >>, << At("keyAttr", B("string"), "opt") >>) >>) >>,
   keywords |-> << Xsd("main.xsd", "Unear", NearX,
                    << Cx("kw_self", None, << El("kw_type", B("string"), 1, "1"), El("kw_match", B("int"), 0, "1"), El("kw_async", B("string"), 0, "unb"),
                                              El("kw_crate", B("boolean"), 1, "1") >>,
                          << At("kw_self", B("string"), "opt") >>) >>) >>]
TypeLabels == IF Tier = "quick" THEN {"builtins_req", "builtins_vec", "text_builtins", "positions", "extension_near", "extension_far", "extension_far_user", "two_foreign", "deep_shared", "homonym_default", "prefix_scoped", "unqualified_form", "name_clash", "wide_extension", "choice_seq", "simple_restricted", "keywords", "three_ns", "sibling_collide", "reserved_prefix"}
              ELSE DOMAIN TypeCases

\* ---- WSDL shapes
Part(n, p, e) == [n |-> n, el |-> T(p, e)]
Msg(n, parts) == [n |-> n, parts |-> parts]
Hdr(m, p) == [msg |-> m, part |-> p]
Wsdl(items, xmlns, w) == [name |-> "svc.wsdl", kind |-> "wsdl", tns |-> "Usvc", xmlns |-> xmlns, items |-> items, wsdl |-> w]
Common(ops, msgs) == [messages |-> msgs, portType |-> "ItemPort", binding |-> "ItemBinding", service |-> "ItemService", address |-> "addr", ops |-> ops]
ReqResp == << ElemI("GetItem", << El("itemId", B("string"), 1, "1") >>), ElemI("GetItemResponse", << El("itemName", B("string"), 1, "1"), El("note", B("string"), 0, "1") >>) >>
Headers == << ElemI("AuthHeader", << El("token", B("string"), 1, "1") >>), ElemI("TraceHeader", << El("traceId", B("long"), 1, "1") >>),
              ElemI("SessionHeader", << El("session", B("string"), 1, "1") >>) >>

WsdlCases ==
  [plain |-> << Wsdl(ReqResp, <<>>,
                  Common(<< [n |-> "GetItem", action |-> "act", input |-> [msg |-> "request", parts |-> "parameters", headers |-> <<>>],
                             output |-> [msg |-> "response", parts |-> "parameters", headers |-> <<>>]] >>,
                         << Msg("request", << Part("parameters", "tns", "GetItem") >>), Msg("response", << Part("parameters", "tns", "GetItemResponse") >>) >>)) >>,
   headers |-> << Wsdl(ReqResp \o Headers, <<>>,
                  Common(<< [n |-> "GetItem", action |-> "act",
                             input |-> [msg |-> "request", headers |-> << Hdr("request", "auth"), Hdr("request", "trace") >>],
                             output |-> [msg |-> "response", headers |-> << Hdr("response", "sess") >>]] >>,
                         << Msg("request", << Part("auth", "tns", "AuthHeader"), Part("bodyPart", "tns", "GetItem"), Part("trace", "tns", "TraceHeader") >>),
                            Msg("response", << Part("sess", "tns", "SessionHeader"), Part("bodyPart", "tns", "GetItemResponse") >>) >>)) >>,
   \* a SOAP 1.2 binding of the same port type next to the SOAP 1.1 one, each with its port (what most stacks publish):
   \* the operations, and therefore the envelope types and the client's methods, exist once
   bindings_after |-> << Wsdl(ReqResp, <<>>,
                  Common(<< [n |-> "GetItem", action |-> "act", input |-> [msg |-> "request", parts |-> "parameters", headers |-> <<>>],
                             output |-> [msg |-> "response", parts |-> "parameters", headers |-> <<>>]] >>,
                         << Msg("request", << Part("parameters", "tns", "GetItem") >>), Msg("response", << Part("parameters", "tns", "GetItemResponse") >>) >>)
                    @@ [second_binding |-> "after", port12_first |-> FALSE]) >>,
   bindings_before |-> << Wsdl(ReqResp, <<>>,
                  Common(<< [n |-> "GetItem", action |-> "act", input |-> [msg |-> "request", parts |-> "parameters", headers |-> <<>>],
                             output |-> [msg |-> "response", parts |-> "parameters", headers |-> <<>>]] >>,
                         << Msg("request", << Part("parameters", "tns", "GetItem") >>), Msg("response", << Part("parameters", "tns", "GetItemResponse") >>) >>)
                    @@ [second_binding |-> "before", port12_first |-> FALSE]) >>,
   bindings_port12 |-> << Wsdl(ReqResp \o Headers, <<>>,
                  Common(<< [n |-> "GetItem", action |-> "act",
                             input |-> [msg |-> "request", headers |-> << Hdr("request", "auth") >>],
                             output |-> [msg |-> "response", headers |-> <<>>]],
                            [n |-> "Ping", input |-> [msg |-> "request", headers |-> << Hdr("request", "auth") >>]] >>,
                         << Msg("request", << Part("auth", "tns", "AuthHeader"), Part("bodyPart", "tns", "GetItem") >>),
                            Msg("response", << Part("parameters", "tns", "GetItemResponse") >>) >>)
                    @@ [second_binding |-> "after", port12_first |-> TRUE]) >>,
   \* another SOAP 1.1 binding of the same port type that no port refers to and that binds no header part (a legacy
   \* binding kept in the file): the client is generated from the binding the service's port names (seed C05-f)
   bindings_legacy |-> << Wsdl(ReqResp \o Headers, <<>>,
                  Common(<< [n |-> "GetItem", action |-> "act",
                             input |-> [msg |-> "request", headers |-> << Hdr("request", "auth") >>],
                             output |-> [msg |-> "response", headers |-> <<>>]] >>,
                         << Msg("request", << Part("auth", "tns", "AuthHeader"), Part("bodyPart", "tns", "GetItem") >>),
                            Msg("response", << Part("parameters", "tns", "GetItemResponse") >>) >>)
                    @@ [legacy_binding |-> "before"]) >>,
   bindings_legacy2 |-> << Wsdl(ReqResp \o Headers, <<>>,
                  Common(<< [n |-> "GetItem", action |-> "act",
                             input |-> [msg |-> "request", headers |-> << Hdr("request", "auth") >>],
                             output |-> [msg |-> "response", headers |-> << Hdr("response", "sess") >>]] >>,
                         << Msg("request", << Part("auth", "tns", "AuthHeader"), Part("bodyPart", "tns", "GetItem") >>),
                            Msg("response", << Part("parameters", "tns", "GetItemResponse"), Part("sess", "tns", "SessionHeader") >>) >>)
                    @@ [legacy_binding |-> "after"]) >>,
   \* WSDL does not fix the order of soap:header and soap:body inside wsdl:input / wsdl:output
   headers_first |-> << Wsdl(ReqResp \o Headers, <<>>,
                  Common(<< [n |-> "GetItem", action |-> "act",
                             input |-> [msg |-> "request", hfirst |-> 1, headers |-> << Hdr("request", "auth"), Hdr("request", "trace") >>],
                             output |-> [msg |-> "response", hfirst |-> 1, headers |-> << Hdr("response", "audit") >>]] >>,
                         << Msg("request", << Part("auth", "tns", "AuthHeader"), Part("bodyPart", "tns", "GetItem"), Part("trace", "tns", "TraceHeader") >>),
                            \* the output's header part comes first in the message AND first in the alphabet
                            Msg("response", << Part("audit", "tns", "SessionHeader"), Part("parameters", "tns", "GetItemResponse") >>) >>)) >>,
   \* the address of the port ends in a slash (it is part of the address)
   address_slash |-> << Wsdl(ReqResp, <<>>,
                  [Common(<< [n |-> "GetItem", action |-> "act", input |-> [msg |-> "request", parts |-> "parameters", headers |-> <<>>],
                             output |-> [msg |-> "response", parts |-> "parameters", headers |-> <<>>]] >>,
                         << Msg("request", << Part("parameters", "tns", "GetItem") >>), Msg("response", << Part("parameters", "tns", "GetItemResponse") >>) >>)
                    EXCEPT !.address = "addr_slash"]) >>,
   oneway |-> << Wsdl(<< ElemI("Ping", << El("pingNote", B("string"), 0, "1") >>) >>, <<>>,
                  Common(<< [n |-> "Ping", input |-> [msg |-> "request", parts |-> "parameters", headers |-> <<>>]] >>,
                         << Msg("request", << Part("parameters", "tns", "Ping") >>) >>)) >>,
   styles |-> << Wsdl(<< ElemI("getItem", << El("itemId", B("string"), 1, "1") >>), ElemI("GetItemResponse", << El("itemName", B("string"), 1, "1") >>),
                         ElemI("Put_item", << El("itemName", B("string"), 1, "1") >>), ElemI("PutItemResponse", << El("result", B("boolean"), 1, "1") >>),
                         ElemI("ListItems", << El("listFilter", B("string"), 0, "1") >>), ElemI("ListItemsResponse", << El("listResult", B("string"), 0, "unb") >>) >>, <<>>,
                  Common(<< [n |-> "getItem", action |-> "act", input |-> [msg |-> "m1", parts |-> "parameters", headers |-> <<>>], output |-> [msg |-> "m2", parts |-> "parameters", headers |-> <<>>]],
                            [n |-> "Put_item", input |-> [msg |-> "m3", parts |-> "parameters", headers |-> <<>>], output |-> [msg |-> "m4", parts |-> "parameters", headers |-> <<>>]],
                            [n |-> "ListItems", action |-> "act", input |-> [msg |-> "m5", parts |-> "parameters", headers |-> <<>>], output |-> [msg |-> "m6", parts |-> "parameters", headers |-> <<>>]] >>,
                         << Msg("m1", << Part("parameters", "tns", "getItem") >>), Msg("m2", << Part("parameters", "tns", "GetItemResponse") >>),
                            Msg("m3", << Part("parameters", "tns", "Put_item") >>), Msg("m4", << Part("parameters", "tns", "PutItemResponse") >>),
                            Msg("m5", << Part("parameters", "tns", "ListItems") >>), Msg("m6", << Part("parameters", "tns", "ListItemsResponse") >>) >>)) >>,
   restricted |-> << Wsdl(<< Simple("LevelType", B("int"), << <<"minInc", 1>>, <<"maxInc", 9>> >>),
                             Simple("NarrowLevel", T("tns", "LevelType"), << <<"maxInc", 5>> >>),
                             Simple("ShortCode", B("string"), << <<"minLen", 2>>, <<"maxLen", 4>> >>),
                             ElemI("GetItem", << El("level", T("tns", "LevelType"), 1, "1"), El("narrow", T("tns", "NarrowLevel"), 0, "1"),
                                                 El("code", T("tns", "ShortCode"), 0, "unb") >>),
                             ElemI("AuthHeader", << El("token", T("tns", "ShortCode"), 1, "1") >>),
                             ElemI("GetItemResponse", << El("itemName", B("string"), 1, "1") >>) >>, <<>>,
                  Common(<< [n |-> "GetItem", action |-> "act",
                             input |-> [msg |-> "request", parts |-> "bodyPart", headers |-> << Hdr("request", "auth") >>],
                             output |-> [msg |-> "response", parts |-> "parameters", headers |-> <<>>]] >>,
                         << Msg("request", << Part("auth", "tns", "AuthHeader"), Part("bodyPart", "tns", "GetItem") >>),
                            Msg("response", << Part("parameters", "tns", "GetItemResponse") >>) >>)) >>,
   \* one local name, two restricted simple types: a different facet set per namespace
   restricted_homonym |-> << Wsdl(<< Imp("Ufar", "far.xsd"),
                             Simple("ShortCode", B("string"), << <<"minLen", 6>>, <<"maxLen", 12>> >>),
                             Simple("LevelType", B("int"), << <<"minInc", 10>>, <<"maxInc", 20>> >>),
                             ElemI("GetItem", << El("farCode", T("o", "ShortCode"), 1, "1"), El("code", T("tns", "ShortCode"), 1, "1"),
                                                 El("farLevel", T("o", "LevelType"), 0, "1"), El("level", T("tns", "LevelType"), 0, "1") >>),
                             ElemI("GetItemResponse", << El("itemName", B("string"), 1, "1") >>) >>, << <<"o", "Ufar">> >>,
                  Common(<< [n |-> "GetItem", action |-> "act",
                             input |-> [msg |-> "request", parts |-> "parameters", headers |-> <<>>],
                             output |-> [msg |-> "response", parts |-> "parameters", headers |-> <<>>]] >>,
                         << Msg("request", << Part("parameters", "tns", "GetItem") >>),
                            Msg("response", << Part("parameters", "tns", "GetItemResponse") >>) >>)),
                   Xsd("far.xsd", "Ufar", << <<"o", "Ufar">> >>,
                       << Simple("ShortCode", B("string"), << <<"maxLen", 4>> >>),
                          Simple("LevelType", B("int"), << <<"minInc", 1>>, <<"maxInc", 5>> >>) >>) >>,
   imported |-> << Wsdl(<< Imp("Ufar", "far.xsd") >>, << <<"o", "Ufar">> >>,
                  Common(<< [n |-> "GetFar", action |-> "act", input |-> [msg |-> "request", parts |-> "parameters", headers |-> << Hdr("request", "sess") >>],
                             output |-> [msg |-> "response", parts |-> "parameters", headers |-> <<>>]] >>,
                         << Msg("request", << Part("parameters", "o", "GetFar"), Part("sess", "o", "SessionHeader") >>),
                            Msg("response", << Part("parameters", "o", "GetFarResponse") >>) >>)),
                   Xsd("far.xsd", "Ufar", << <<"o", "Ufar">> >>,
                       << ElemI("GetFar", << El("farArg", B("string"), 1, "1") >>), ElemI("GetFarResponse", << El("farResult", B("int"), 1, "1") >>),
                          ElemI("SessionHeader", << El("session", B("string"), 1, "1") >>) >>) >>,
   \* message parts that refer to global elements WITH A TYPE ATTRIBUTE: a named complex type, a restricted simple type,
   \* a builtin (the element is then an alias, not a struct of its own)
   elem_typed |-> << Wsdl(<< Cx("OtherType", None, << El("otherValue", B("string"), 1, "1"), El("itemId", B("int"), 0, "1") >>, << At("keyAttr", B("string"), "opt") >>),
                             Simple("ShortCode", B("string"), << <<"minLen", 2>>, <<"maxLen", 4>> >>),
                             ElemT("GetItem", T("tns", "OtherType")), ElemT("GetItemResponse", B("string")),
                             ElemT("AuthHeader", T("tns", "ShortCode")), ElemT("TraceHeader", B("long")) >>, <<>>,
                  Common(<< [n |-> "GetItem", action |-> "act",
                             input |-> [msg |-> "request", headers |-> << Hdr("request", "auth") >>],
                             output |-> [msg |-> "response", headers |-> << Hdr("response", "trace") >>]] >>,
                         << Msg("request", << Part("auth", "tns", "AuthHeader"), Part("bodyPart", "tns", "GetItem") >>),
                            Msg("response", << Part("answer", "tns", "GetItemResponse"), Part("trace", "tns", "TraceHeader") >>) >>)) >>,
   \* the inline schema has its own target namespace (Uthird), different from that of the definitions (Usvc)
   inline_tns |-> << Wsdl(<< ElemI("GetItem", << El("itemId", B("string"), 1, "1"), El("subjectMember", T("ty", "OtherType"), 0, "1") >>),
                             ElemI("GetItemResponse", << El("itemName", B("string"), 1, "1") >>),
                             Cx("OtherType", None, << El("otherValue", B("string"), 1, "1") >>, <<>>) >>, << <<"ty", "Uthird">> >>,
                  Common(<< [n |-> "GetItem", action |-> "act", input |-> [msg |-> "request", parts |-> "parameters", headers |-> <<>>],
                             output |-> [msg |-> "response", parts |-> "parameters", headers |-> <<>>]] >>,
                         << Msg("request", << Part("parameters", "ty", "GetItem") >>), Msg("response", << Part("parameters", "ty", "GetItemResponse") >>) >>))
                    @@ [stns |-> "Uthird"] >>,
   \* two inline schemas with their own target namespaces; the first refers to a type of the second
   two_inline |-> << Wsdl(<< [k |-> "import", ns |-> "Uthird"],
                             ElemI("GetItem", << El("itemId", B("string"), 1, "1"), El("subjectMember", T("ty", "OtherType"), 0, "1") >>) >>,
                          << <<"ty", "Uthird">>, <<"sv", "Uv1">> >>,
                  Common(<< [n |-> "GetItem", action |-> "act", input |-> [msg |-> "request", parts |-> "parameters", headers |-> <<>>],
                             output |-> [msg |-> "response", parts |-> "parameters", headers |-> <<>>]] >>,
                         << Msg("request", << Part("parameters", "sv", "GetItem") >>), Msg("response", << Part("parameters", "ty", "GetItemResponse") >>) >>))
                    @@ [stns |-> "Uv1"],
                   [name |-> "svc.wsdl#2", kind |-> "inline", parent |-> "svc.wsdl", tns |-> "Uthird", xmlns |-> <<>>,
                    items |-> << ElemI("GetItemResponse", << El("itemName", B("string"), 1, "1") >>),
                                 Cx("OtherType", None, << El("otherValue", B("string"), 1, "1") >>, <<>>) >>] >>,
   \* ... and the second leaves elementFormDefault at its default while the first sets it (each schema has its own)
   two_inline_forms |-> << Wsdl(<< [k |-> "import", ns |-> "Uthird"],
                             ElemI("GetItem", << El("itemId", B("string"), 1, "1"), El("subjectMember", T("ty", "OtherType"), 0, "1") >>) >>,
                          << <<"ty", "Uthird">>, <<"sv", "Uv1">> >>,
                  Common(<< [n |-> "GetItem", action |-> "act", input |-> [msg |-> "request", parts |-> "parameters", headers |-> <<>>],
                             output |-> [msg |-> "response", parts |-> "parameters", headers |-> <<>>]] >>,
                         << Msg("request", << Part("parameters", "sv", "GetItem") >>), Msg("response", << Part("parameters", "ty", "GetItemResponse") >>) >>))
                    @@ [stns |-> "Uv1"],
                   [name |-> "svc.wsdl#2", kind |-> "inline", parent |-> "svc.wsdl", tns |-> "Uthird", xmlns |-> <<>>,
                    items |-> << ElemI("GetItemResponse", << El("itemName", B("string"), 1, "1") >>),
                                 Cx("OtherType", None, << El("otherValue", B("string"), 1, "1") >>, <<>>) >>, unqualified |-> TRUE] >>,
   \* the last inline schema holds nothing but an import (the everyday <xs:schema><xs:import .../></xs:schema>); the
   \* imported file binds the WSDL's own prefix `tns` to ITS namespace and declares elements of the same names: the
   \* message parts are resolved with the WSDL's bindings, not with what the last file read left behind (seed C09-f)
   import_last |-> << Wsdl(ReqResp, <<>>,
                  Common(<< [n |-> "GetItem", action |-> "act", input |-> [msg |-> "request", parts |-> "parameters", headers |-> <<>>],
                             output |-> [msg |-> "response", parts |-> "parameters", headers |-> <<>>]] >>,
                         << Msg("request", << Part("parameters", "tns", "GetItem") >>), Msg("response", << Part("parameters", "tns", "GetItemResponse") >>) >>)),
                   [name |-> "svc.wsdl#2", kind |-> "inline", parent |-> "svc.wsdl", tns |-> "Usvc", xmlns |-> <<>>,
                    items |-> << Imp("Ufar", "far.xsd") >>],
                   Xsd("far.xsd", "Ufar", << <<"tns", "Ufar">> >>,
                       << ElemI("GetItem", << El("farArg", B("string"), 1, "1") >>), ElemI("GetItemResponse", << El("farResult", B("int"), 1, "1") >>) >>) >>,
   \* two inline schemas that declare a type of the SAME name (different members); in the second one a type extends its
   \* own namespace's OtherType BEFORE that type is declared: the base is the component of that name IN THAT NAMESPACE,
   \* not the first one of that name in the file (D46)
   two_inline_homonym |-> << Wsdl(<< ElemI("GetItem", << El("itemId", B("string"), 1, "1") >>),
                             ElemI("GetItemResponse", << El("itemName", B("string"), 1, "1") >>),
                             Cx("OtherType", None, << El("otherValue", B("string"), 1, "1") >>, <<>>) >>,
                          << <<"ty", "Uthird">> >>,
                  Common(<< [n |-> "GetItem", action |-> "act", input |-> [msg |-> "request", parts |-> "parameters", headers |-> <<>>],
                             output |-> [msg |-> "response", parts |-> "parameters", headers |-> <<>>]] >>,
                         << Msg("request", << Part("parameters", "tns", "GetItem") >>), Msg("response", << Part("parameters", "tns", "GetItemResponse") >>) >>)),
                   [name |-> "svc.wsdl#2", kind |-> "inline", parent |-> "svc.wsdl", tns |-> "Uthird", xmlns |-> << <<"ty", "Uthird">> >>,
                    items |-> << Cx("LeafType", T("ty", "OtherType"), << El("leafItem", B("string"), 1, "1") >>, <<>>),
                                 Cx("OtherType", None, << El("farValue", B("int"), 1, "1"), El("farCode", B("string"), 0, "1") >>, <<>>) >>] >>,
   \* body and header elements of one message in different namespaces, and the response in a namespace the request never uses
   mixed_ns |-> << Wsdl(<< Imp("Ufar", "far.xsd"), ElemI("GetItem", << El("itemId", B("string"), 1, "1") >>),
                           ElemI("AuthHeader", << El("token", B("string"), 1, "1") >>) >>, << <<"o", "Ufar">> >>,
                  Common(<< [n |-> "GetItem", action |-> "act",
                             input |-> [msg |-> "request", headers |-> << Hdr("request", "auth") >>],
                             output |-> [msg |-> "response", headers |-> << Hdr("response", "sess") >>]] >>,
                         << Msg("request", << Part("auth", "tns", "AuthHeader"), Part("bodyPart", "tns", "GetItem") >>),
                            Msg("response", << Part("answer", "o", "GetItemResponse"), Part("sess", "o", "SessionHeader") >>) >>)),
                   Xsd("far.xsd", "Ufar", << <<"o", "Ufar">> >>,
                       << ElemI("GetItemResponse", << El("itemName", B("string"), 1, "1") >>),
                          ElemI("SessionHeader", << El("session", B("string"), 1, "1") >>) >>) >>,
   mixed_ns2 |-> << Wsdl(<< Imp("Ufar", "far.xsd"), ElemI("GetItem", << El("itemId", B("string"), 1, "1") >>),
                            ElemI("GetItemResponse", << El("itemName", B("string"), 1, "1") >>) >>, << <<"o", "Ufar">> >>,
                  Common(<< [n |-> "GetItem", action |-> "act",
                             input |-> [msg |-> "request", headers |-> << Hdr("request", "sess") >>],
                             output |-> [msg |-> "response", headers |-> << Hdr("response", "trace") >>]] >>,
                         << Msg("request", << Part("bodyPart", "tns", "GetItem"), Part("sess", "o", "SessionHeader") >>),
                            Msg("response", << Part("answer", "tns", "GetItemResponse"), Part("trace", "o", "TraceHeader") >>) >>)),
                   Xsd("far.xsd", "Ufar", << <<"o", "Ufar">> >>,
                       << ElemI("TraceHeader", << El("traceId", B("long"), 1, "1") >>),
                          ElemI("SessionHeader", << El("session", B("string"), 1, "1") >>) >>) >>,
   headers_many |-> << Wsdl(ReqResp \o Headers, <<>>,
                  Common(<< [n |-> "GetItem", action |-> "act",
                             input |-> [msg |-> "request", headers |-> << Hdr("request", "auth"), Hdr("request", "trace"), Hdr("request", "sess") >>],
                             output |-> [msg |-> "response", headers |-> << Hdr("response", "sess"), Hdr("response", "trace") >>]],
                            [n |-> "Ping", input |-> [msg |-> "request", headers |-> << Hdr("request", "auth"), Hdr("request", "trace"), Hdr("request", "sess") >>]] >>,
                         << Msg("request", << Part("trace", "tns", "TraceHeader"), Part("sess", "tns", "SessionHeader"), Part("zbody", "tns", "GetItem"), Part("auth", "tns", "AuthHeader") >>),
                            Msg("response", << Part("sess", "tns", "SessionHeader"), Part("answer", "tns", "GetItemResponse"), Part("trace", "tns", "TraceHeader") >>) >>)) >>]
WsdlLabels == IF Tier = "quick" THEN DOMAIN WsdlCases \ {"headers_many", "bindings_before"} ELSE DOMAIN WsdlCases

Space == IF Slice = "types" THEN {[kind |-> "types", label |-> l] : l \in TypeLabels} ELSE {[kind |-> "wsdl", label |-> l] : l \in WsdlLabels}
FilesOf(x) == IF x.kind = "types" THEN TypeCases[x.label] ELSE WsdlCases[x.label]
SetOf(x) == [files |-> FilesOf(x), start |-> FilesOf(x)[1].name]

\* the struct table the schema prescribes
TargetJ(t) == IF t.k = "struct" THEN [k |-> "struct", ns |-> t.ns, xml |-> NameRec(t.n).xml, pascal |-> NameRec(t.n).pascal] ELSE t
FieldJ(e) == [xml |-> NameRec(e.xml).xml, snake |-> NameRec(e.xml).snake, w |-> e.w, attr |-> e.attr, target |-> TargetJ(e.target), ns |-> e.ns, xsd |-> e.xsd]
RECURSIVE SetToSeq(_)
SetToSeq(X) == IF X = {} THEN <<>> ELSE LET x == CHOOSE y \in X : TRUE IN <<x>> \o SetToSeq(X \ {x})
\* Field names of one struct are pairwise distinct (D33): a member whose snake_case name is taken gets a suffix - `_attr`
\* as the first try for an attribute, else `_2`, `_3` ... - in member order
Cand(base, attr, k) == IF k = 1 THEN base ELSE IF k = 2 /\ attr THEN base \o "_attr" ELSE base \o "_" \o ToString(k)
RECURSIVE FieldNames(_, _, _)
FieldNames(fs, i, taken) ==
  IF i > Len(fs) THEN <<>>
  ELSE LET base == NameRec(fs[i].xml).snake
           k == CHOOSE n \in 1..(Len(fs) + 2) : Cand(base, fs[i].attr, n) \notin taken /\ \A m \in 1..(n - 1) : Cand(base, fs[i].attr, m) \in taken
       IN <<Cand(base, fs[i].attr, k)>> \o FieldNames(fs, i + 1, taken \cup {Cand(base, fs[i].attr, k)})
FieldsJ(fs) == LET nm == FieldNames(fs, 1, {}) IN [i \in 1..Len(fs) |-> [FieldJ(fs[i]) EXCEPT !.snake = nm[i]]]
StructJ(S, s) == [ns |-> s.ns, xml |-> NameRec(s.n).xml, pascal |-> NameRec(s.n).pascal, kind |-> s.k,
                  facets |-> EffFacets(S, s, 4),
                  valid |-> IF s.k = "simple" THEN ValidText(EffFacets(S, s, 4)) ELSE "?",
                  invalid |-> IF s.k = "simple" THEN InvalidText(EffFacets(S, s, 4)) ELSE "?",
                  invalids |-> IF s.k = "simple" THEN SetToSeq(InvalidTexts(EffFacets(S, s, 4))) ELSE <<>>,
                  fields |-> IF s.k = "simple" THEN <<>> ELSE LET fs == ExpFields(S, FileNamed(S, s.f), s.it, BodyOf(s)) IN FieldsJ(fs),
                  base |-> IF s.k = "simple" THEN TargetJ(TargetOf(S, FileNamed(S, s.f), s.it, s.it.base)) @@ [xsd |-> XsdOf(s.it.base)] ELSE [k |-> "none"]]
Expect(S) == LET ss == SetToSeq(StructComps(S)) IN [i \in 1..Len(ss) |-> StructJ(S, ss[i])]

\* operation shapes as the WSDL declares them (body part: named by parts=, else the part no header names)
OpsOf(x) ==
  IF x.kind # "wsdl" THEN <<>> ELSE
  LET w == FilesOf(x)[1].wsdl
      S == SetOf(x)
      f == FilesOf(x)[1]
      msg(nm) == CHOOSE m \in ZRange(w.messages) : m.n = nm
      elemOf(p) == [ns |-> IF p.el.p = "tns" THEN f.tns ELSE Binding(f.xmlns, p.el.p), n |-> p.el.n]   \* the concretiser binds tns: to the WSDL's namespace
      io(d) == LET m == msg(d.msg)
                   hparts == {d.headers[i].part : i \in 1..Len(d.headers)}
                   bodyPart == IF "parts" \in DOMAIN d THEN CHOOSE p \in ZRange(m.parts) : p.n = d.parts
                               ELSE CHOOSE p \in ZRange(m.parts) : p.n \notin hparts
               IN [body |-> elemOf(bodyPart),
                   headers |-> [i \in 1..Len(d.headers) |-> [part |-> d.headers[i].part, el |-> elemOf(CHOOSE p \in ZRange(m.parts) : p.n = d.headers[i].part)]]]
  IN [i \in 1..Len(w.ops) |-> [n |-> w.ops[i].n, pascal |-> NameRec(w.ops[i].n).pascal, snake |-> NameRec(w.ops[i].n).snake,
                               action |-> "action" \in DOMAIN w.ops[i],
                               input |-> io(w.ops[i].input),
                               output |-> IF "output" \in DOMAIN w.ops[i] THEN io(w.ops[i].output) ELSE None]]

\* the documents the schema prescribes for the values of each root (instance documents for C04 are rendered from them)
Infosets(S) == LET rs == SetToSeq({r \in StructComps(S) : TRUE})
                   ps == <<"min", "max", "mix">>
                   ws == SetToSeq({r \in StructComps(S) : HasWide(S, r, 4)})
               IN [i \in 1..(Len(rs) * 3) |->
                     LET r == rs[((i - 1) \div 3) + 1]
                         p == ps[((i - 1) % 3) + 1]
                     IN [ns |-> r.ns, n |-> NameRec(r.n).xml, kind |-> r.k, plan |-> p, tree |-> ExpInfoset(S, r, p)]]
                  \o [i \in 1..Len(ws) |-> [ns |-> ws[i].ns, n |-> NameRec(ws[i].n).xml, kind |-> ws[i].k, plan |-> "wide", tree |-> ExpInfoset(S, ws[i], "wide")]]
Envelopes(x) == LET S == SetOf(x)
                    os == OpsOf(x)
                IN [i \in 1..Len(os) |-> [op |-> os[i].n,
                                           input |-> [p \in {"max"} |-> ExpEnvelope(S, os[i].input, p)],
                                           output |-> IF os[i].output = None THEN None ELSE [p \in {"max"} |-> ExpEnvelope(S, os[i].output, p)]]]

CaseOf(x) == [prop |-> "CR", drv |-> "gen", label |-> x.label, kind |-> x.kind, start |-> SetOf(x).start, files |-> SetOf(x).files,
              expect |-> Expect(SetOf(x)), ops |-> OpsOf(x), service |-> IF x.kind = "wsdl" THEN "ItemService" ELSE "none",
              infosets |-> Infosets(SetOf(x)), envelopes |-> Envelopes(x),
              \* the binding the service's port names (and its SOAP 1.2 twin): what the reader binds for any other binding of
              \* the file is not what the client is generated from
              bindings |-> IF x.kind = "wsdl" THEN <<"ItemBinding">> ELSE <<>>]

MCInit == c \in Space
MCSpec == MCInit /\ [][UNCHANGED c]_vars
\* vacuity guards on the declarative side: every case has structs, every wsdl case has operations whose body element exists
WellFormed == LET S == SetOf(c) IN
  /\ StructComps(S) # {}
  /\ \A i \in 1..Len(OpsOf(c)) : \E e \in ElemsOf(S) : e.ns = OpsOf(c)[i].input.body.ns /\ e.n = OpsOf(c)[i].input.body.n
Emit == PrintT(<<"CASE", ToJson(CaseOf(c))>>)

Vocab == [names |-> Names, tokens |-> TokTab,
          uris |-> [Unear |-> [uri |-> "http://zv.test/cr/near"], Ufar |-> [uri |-> "http://zv.test/cr/far"], Usvc |-> [uri |-> "http://zv.test/cr/service"],
                    Uthird |-> [uri |-> "http://zv.test/cr/third"], Uxml |-> [uri |-> "http://zv.test/cr/xmldsig"], Uv1 |-> [uri |-> "http://zv.test/cr/v1/types"], Uv2 |-> [uri |-> "http://zv.test/cr/v2/types"]],
          texts |-> [addr |-> "http://127.0.0.1:1/zv/items", addr_slash |-> "http://127.0.0.1:1/zv/items/", act |-> "http://zv.test/cr/service/action"]]
ASSUME PrintT(<<"VOCAB", ToJson(Vocab)>>)
=======================================================================
