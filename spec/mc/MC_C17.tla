--------------------------- MODULE MC_C17 ---------------------------
(* Every scenario of Cli (path spelling x output choice x pre-existing output x failing stage) is one initial   *)
(* state; the invariants are C17 on the model; each scenario is printed for replay on the real binary, once     *)
(* per working directory.                                                                                       *)
EXTENDS Cli, Json
MCSpec == Spec
\* C17 at design level (the repaired order of stages); with deviations listed the model is only used to predict
DesignOK == (Dev = {}) => (SuccessWritesNew /\ FailureKeepsOld /\ SucceedsIffNoFailure)
DesignOKD == SuccessWritesNew /\ FailureKeepsOld /\ SucceedsIffNoFailure
OutcomeAgrees == exit # "running" => (Outcome(scn, Dev).exit = exit /\ Outcome(scn, Dev).outf = outf)
Emit == (pc = Order /\ exit = "running") => PrintT(<<"CASE", ToJson([prop |-> "C17", drv |-> "cli", scn |-> scn])>>)
ASSUME PrintT(<<"VOCAB", ToJson([names |-> [x |-> [xml |-> "x"]]])>>)
=======================================================================
