#!/bin/bash
# Build the framework from files on disk only (offline).
set -e
cd "$(dirname "$0")"
exec python3 lib/setup.py "$@"
