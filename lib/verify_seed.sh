#!/bin/bash
# verify_seed.sh <worktree> <seed-id> <property>: confirm a seeded change (tests pass with it, demo fails with it and passes without), then store it
wt=$1; id=$2; prop=$3
cd $wt || exit 2
[ -f demo/patch.diff ] || { echo "no patch"; exit 2; }
git stash list | grep -q . && echo "WARNING: stash not empty"
# normalise: start from a clean tree, then apply the patch
git checkout -q -- . 2>/dev/null
git apply --check demo/patch.diff || { echo "patch does not apply"; exit 2; }
echo "== demo on ORIGINAL code"; bash demo/run.sh >/tmp/seed_${id}_orig.log 2>&1; r0=$?; echo "rc=$r0"
git apply demo/patch.diff
echo "== test suite WITH change"; t=$(cargo test --workspace --no-fail-fast --offline 2>&1 | grep -E "^test result" | grep -v " 0 passed"); echo "$t"
echo "== demo WITH change"; bash demo/run.sh >/tmp/seed_${id}_mut.log 2>&1; r1=$?; echo "rc=$r1"
git status --short | grep -v '^??' | head
if [ $r0 -eq 0 ] && [ $r1 -ne 0 ] && echo "$t" | grep -q "32 passed; 0 failed"; then
  find demo -name target -type d -prune -exec rm -rf {} + 2>/dev/null; d=/verif/seeded/$id; mkdir -p $d; cp demo/patch.diff $d/; cp -r demo/* $d/ 2>/dev/null
  echo "CONFIRMED -> $d"
else
  echo "NOT CONFIRMED"
fi
