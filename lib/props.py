import json, os, sys, time, traceback
import zvlib as z
from zvlib import log


def cfg(spec="MCSpec", consts=None, invariants=(), properties=(), constraint=None, post=None, extra=""):
    lines = [f"SPECIFICATION {spec}"]
    if consts:
        lines.append("CONSTANTS")
        for k, v in consts.items():
            lines.append(f"  {k} {v}" if v.startswith("<-") else f"  {k} = {v}")
    for i in invariants:
        lines.append(f"INVARIANT {i}")
    for p in properties:
        lines.append(f"PROPERTY {p}")
    if constraint:
        lines.append(f"CONSTRAINT {constraint}")
    if post:
        lines.append(f"POSTCONDITION {post}")
    lines.append("CHECK_DEADLOCK FALSE")
    if extra:
        lines.append(extra)
    return "\n".join(lines) + "\n"


def tla_set(xs):
    return "{" + ", ".join('"%s"' % x for x in xs) + "}"


class Result:
    def __init__(self, prop, tier):
        self.prop, self.tier = prop, tier
        self.t0 = time.time()
        self.states = 0
        self.transitions = 0
        self.traces = 0
        self.samples = []
        self.viol = []      # violation instances not explained by a listed finding
        self.known = {}     # finding id -> sample instance
        self.stale = []
        self.drift = 0
        self.extra = {}
        self.cases = []
        self.vocab = {}
        self.mc_runs = []

    def add_mc(self, name, res):
        self.states += res["distinct"]
        self.transitions += res["states"]
        self.mc_runs.append({"model": name, "states_generated": res["states"], "distinct": res["distinct"], "wall_s": round(res["wall"], 1)})


def mc_run(R, module, cfg_text, name, workers=8, timeout=1500, need_ok=True):
    res = z.tlc(os.path.join(z.SPEC, "mc", module + ".tla"), cfg_text, workers=workers, timeout=timeout, name=name)
    if need_ok and not res["ok"]:
        log(z.tlc_fail_summary(res))
        raise z.ToolError(f"model checking of {name} did not complete cleanly")
    R.add_mc(name, res)
    tagged = z.parse_tagged(res["stdout"])
    vocab = next((p for t, p in tagged if t == "VOCAB"), {})
    cases = [p for t, p in tagged if t == "CASE"]
    return res, vocab, cases, tagged


def trace_run(R, module, cfg_text, traces, name):
    results = z.validate_traces(module, cfg_text, traces, name)
    viol, known, stale, drift = [], [], [], []
    for r in results:
        tagged = z.parse_tagged(r["stdout"])
        if not r["ok"]:
            log(z.tlc_fail_summary(r))
            raise z.ToolError(f"trace validation {name}: TLC did not accept trace {r['trace']}")
        R.states += r["distinct"]
        R.transitions += r["states"]
        for t, p in tagged:
            if t == "VIOL":
                viol.append(p)
            elif t == "KNOWN":
                known.append(p)
            elif t == "STALE":
                stale.append(p)
            elif t == "DRIFT":
                drift.append(p)
            elif t == "TALLY":
                parts = [x.strip() for x in str(p).split(",")]
                R.traces += int(parts[0])
                if len(parts) >= 3 and parts[2].isdigit():
                    R.extra["observations_judged_by_tlc"] = R.extra.get("observations_judged_by_tlc", 0) + int(parts[2])
    return viol, known, stale, drift


def finish(R, level, rule, assumptions, trusted=None):
    opened, fixed = z.known_findings()
    by_dev = {d.get("dev"): d for d in opened}
    for dev, sample in sorted(R.known.items()):
        d = by_dev.get(dev, {})
        print(f"KNOWN-FINDING: property={R.prop} {dev} site={d.get('site','?')} input=\"{d.get('input','?')}\" fails=\"{d.get('fails','?')}\"")
    rc = 0
    if R.viol:
        rc = 1
        seen = set()
        for v in R.viol:
            cid = v.get("id") if isinstance(v, dict) else None
            if cid in seen:
                continue
            seen.add(cid)
            case = next((c for c in R.cases if c.get("id") == cid), {"id": cid})
            path = z.save_replay(R.prop, case, R.vocab, extra=[x for x in R.viol if isinstance(x, dict) and x.get("id") == cid])
            print(f"VIOLATION property={R.prop} replay={path}")
            log("violation instance:", json.dumps(v))
            if len(seen) >= 5:
                log(f"... {len(R.viol)} violation instances in total")
                break
    if R.drift:
        # not an alarm (the property's clauses hold on what was observed), but never silent: the step-level model and
        # the code disagree somewhere, which is where the next defect or the next modelling error sits
        print(f"MODEL-DRIFT: property={R.prop} {R.drift} case(s) in which a step of the code is not the step the model takes (see evidence, build/tlc/*/stdout.txt)")
    cov = {"states": R.states, "transitions": R.transitions, "traces_validated_against_impl": R.traces,
           "samples": R.samples[:3] or [{"note": "no cases"}], "evaluations": len(R.cases),
           "distinct_nontrivial": len(R.cases), "rule": rule, "model_runs": R.mc_runs,
           "known_findings": sorted(R.known), "stale_deviations": R.stale[:10], "model_drift_cases": R.drift,
           "violation_instances": R.viol[:10]}
    cov.update(R.extra)
    z.write_evidence(R.prop, R.tier, level, cov, time.time() - R.t0, len(R.viol), assumptions)
    return rc


# ------------------------------------------------------------------------- C11

def check_C11(tier, replay=None):
    R = Result("C11", tier)
    dev = z.dev_set()
    devs = tla_set([d for d in dev if d in ("D03", "D04", "D28", "D28b")])
    runs = []
    F3, F4 = '{"f1.xsd","f2.xsd","f3.xsd"}', '{"f1.xsd","f2.xsd","f3.xsd","f4.xsd"}'
    if tier == "quick":
        runs.append(("MC_C11_f3", {"File": F3, "FileSeq": "<- FileSeq3", "Extras": "<- NoExtras", "Siblings": "<- Sib3", "MaxCalls": "2", "RefsOn": "FALSE"}))
        runs.append(("MC_C11_f3refs", {"File": F3, "FileSeq": "<- FileSeq3", "Extras": "<- NoExtras", "Siblings": "<- NoSib", "MaxCalls": "1", "RefsOn": "TRUE"}))
        F2 = '{"f1.xsd","f2.xsd"}'
        runs.append(("MC_C11_f2x", {"File": F2, "FileSeq": "<- FileSeq2", "Extras": "<- AllExtras", "Siblings": "<- NoSib", "MaxCalls": "2", "RefsOn": "FALSE"}))
        runs.append(("MC_C11_f3samens", {"File": F3, "FileSeq": "<- FileSeq3", "Extras": "<- NoExtras", "Siblings": "<- NoSib", "MaxCalls": "1", "RefsOn": "FALSE", "SameNs": "TRUE"}))
        runs.append(("MC_C11_f4dagrefs", {"File": F4, "FileSeq": "<- FileSeq4", "Extras": "<- NoExtras", "Siblings": "<- NoSib", "MaxCalls": "1", "RefsOn": "TRUE", "_spec": "MCSpecDag"}))
    else:
        runs.append(("MC_C11_f4", {"File": F4, "FileSeq": "<- FileSeq4", "Extras": "<- NoExtras", "Siblings": "<- Sib3", "MaxCalls": "1", "RefsOn": "FALSE"}))
        runs.append(("MC_C11_f3x", {"File": F3, "FileSeq": "<- FileSeq3", "Extras": "<- AllExtras", "Siblings": "<- Sib3", "MaxCalls": "3", "RefsOn": "FALSE"}))
        runs.append(("MC_C11_f4refs_random", {"File": F4, "FileSeq": "<- FileSeq4", "Extras": "<- NoExtras", "Siblings": "<- NoSib", "MaxCalls": "1", "RefsOn": "TRUE", "Sample": "4000", "_spec": "MCSpecRandom"}))
        F6 = '{"f1.xsd","f2.xsd","f3.xsd","f4.xsd","f5.xsd","f6.xsd"}'
        runs.append(("MC_C11_f6random", {"File": F6, "FileSeq": "<- FileSeq6", "Extras": "<- NoExtras", "Siblings": "<- Sib3", "MaxCalls": "1", "RefsOn": "TRUE", "Sample": "1500", "_spec": "MCSpecRandom"}))
    z.build_harness()
    all_viol = []
    for name, consts in runs:
        consts = dict(consts, Dev=devs)
        spec_name = consts.pop("_spec", "MCSpec")
        consts.setdefault("Sample", "1")
        consts.setdefault("SameNs", "FALSE")
        c = cfg(spec_name, consts, invariants=["TypeOK", "NoReentry", "NoOverflow", "Once", "NoUnreachable", "DanglingIsError", "RepeatSame", "EmitCase"] + ([] if dev else ["Complete"]),
                properties=["Terminates"])
        res, vocab, cases, _ = mc_run(R, "MC_C11", c, name, workers=8)
        base = len(R.cases)
        os.environ["ZV_SCRATCH"] = os.path.join(z.BUILD, "scratch")
        for i, cs in enumerate(cases):
            cs["id"] = base + i + 1
            # every eighth case also goes through the directory scan of utils.rs with unreachable siblings on disk
            cs["dirscan"] = (cs["id"] % 8 == 0) and not consts.get("RefsOn") == "TRUE"
        R.cases += cases
        R.vocab = vocab
        log(f"{name}: {res['distinct']} distinct states, {len(cases)} cases, {res['wall']:.1f}s")
        traces, crashed = z.run_harness(vocab, cases, name)
        tcfg = cfg("TraceSpec", {"File": consts["File"], "Dev": devs, "MaxCalls": consts["MaxCalls"], "RefsOn": consts["RefsOn"]}, post="Accepted")

        viol, known, stale, drift = trace_run(R, "Trace_C11", tcfg, traces, "T_" + name)
        R.stale += stale
        for k in known:
            for d in (k.get("devs") or ["?"]):
                R.known.setdefault(d, k)
        R.extra.setdefault("crashed_workers", 0)
        R.extra["crashed_workers"] += crashed
        R.drift += len(drift)
        all_viol += viol
    R.viol = all_viol
    R.samples = R.cases[:2]
    R.extra["exhaustive"] = not any("random" in r[0] for r in runs)
    R.extra["exhaustive_part"] = "every digraph over 3 (quick) / 4 (thorough) files and every start file, and every acyclic digraph over 4 files with cross references between the files (quick); the 4-file graphs with references and the 6-file graphs of the thorough tier are seeded random samples"
    R.extra["bounds"] = [r[0] for r in runs]
    return finish(R, "model_checking",
                  "every import digraph over the files (every edge subset, every start) is one TLC initial state; each is concretised, run through the real reader/writer and its trace judged by TLC; a case is distinct by (graph, start)",
                  ["concretiser and abstraction functions of the harness (DESIGN 5.3)", "TLC"])


# ------------------------------------------------------------------------- generic flow

def std_flow(R, mc_module, runs, trace_module, trace_consts, dev_ids, invariants, properties=(), workers=8, per_case_timeout=20,
             mc_timeout=1500):
    """(A) model-check each bounded instance and collect its CASE lines, (B) replay them on the real code,
    (C) let TLC judge the recorded traces.  `runs` = [(name, consts)]"""
    dev = [d for d in z.dev_set() if d in dev_ids]
    devs = tla_set(dev)
    z.build_harness()
    for name, consts in runs:
        consts = dict(consts, Dev=devs)
        c = cfg("MCSpec", consts, invariants=list(invariants), properties=list(properties))
        res, vocab, cases, _ = mc_run(R, mc_module, c, name, workers=workers, timeout=mc_timeout)
        base = len(R.cases)
        for i, cs in enumerate(cases):
            cs["id"] = base + i + 1
        R.cases += cases
        R.vocab = vocab
        log(f"{name}: {res['distinct']} distinct states, {len(cases)} cases, {res['wall']:.1f}s")
        if not cases:
            raise z.ToolError(f"{name} produced no cases")
        traces, crashed = z.run_harness(vocab, cases, name, per_case_timeout=per_case_timeout)
        tc = dict(trace_consts(consts) if callable(trace_consts) else trace_consts, Dev=devs)
        tcfg = cfg("TraceSpec", tc, post="Accepted")
        viol, known, stale, drift = trace_run(R, trace_module, tcfg, traces, "T_" + name)
        R.extra["crashed_workers"] = R.extra.get("crashed_workers", 0) + crashed
        R.drift += len(drift)
        R.viol += viol
        R.stale += stale
        if trace_module == "Trace_Out":
            # the same traces, second reading: every look-up event against spec/Lookup.tla (Trace_Lookup)
            _, _, _, d2 = trace_run(R, "Trace_Lookup", cfg("TraceSpec", {}, post="Accepted"), traces, "TL_" + name)
            R.drift += len(d2)
            R.extra["lookup_events_validated"] = R.extra.get("lookup_events_validated", 0) + sum(1 for t in traces for line in open(t) if '"lookup_end"' in line)
            R.extra.setdefault("lookup_drift_samples", []).extend(d2[:3])
        for k in known:
            for d in (k.get("devs") or ["?"]):
                R.known.setdefault(d, k)
    R.samples = R.cases[:2]
    R.extra.setdefault("bounds", []).extend(dict(r[1], model=r[0]) for r in runs)


# ------------------------------------------------------------------------- C06

def check_C06(tier, replay=None):
    R = Result("C06", tier)
    runs = [("MC_C06_int", {"Slice": '"int"'}), ("MC_C06_str", {"Slice": '"str"'}), ("MC_C06_other", {"Slice": '"other"'})]
    if tier == "thorough":
        runs.append(("MC_C06_int_wide", {"Slice": '"int_wide"'}))
    std_flow(R, "MC_C06", runs, "Trace_C06", {}, ("D20", "D21"), ["Agreement", "Emit"])
    if tier == "thorough":
        # extra: TLAPS proves the numeric part for all integers (spec/tlaps/FacetsProof.tla)
        import subprocess, shutil, re
        work = os.path.join(z.BUILD, "tlaps")
        shutil.rmtree(work, ignore_errors=True)
        os.makedirs(work, exist_ok=True)
        shutil.copy(os.path.join(z.SPEC, "tlaps", "FacetsProof.tla"), work)
        try:
            p = subprocess.run(["tlapm", "--threads", "8", "FacetsProof.tla"], cwd=work, stdout=subprocess.PIPE, stderr=subprocess.STDOUT, timeout=600)
            m = re.search(r"All (\d+) obligations? proved", p.stdout.decode("utf-8", "replace"))
            R.extra["tlaps"] = {"module": "spec/tlaps/FacetsProof.tla", "all_proved": bool(m), "obligations": int(m.group(1)) if m else 0}
            if not m:
                raise z.ToolError("TLAPS could not prove spec/tlaps/FacetsProof.tla")
        except (subprocess.TimeoutExpired, FileNotFoundError) as e:
            R.extra["tlaps"] = {"not_run": type(e).__name__}
    R.extra["exhaustive"] = True
    R.extra["anchorings_per_case"] = "up to 5 (mid, max-1, min+1, max, min of the carrier clipped to i32; skipped where a point does not fit)"
    return finish(R, "model_checking",
                  "every (carrier, wrapper, value point, restriction set) of the abstract space of spec/Facets.tla is one TLC state; each is evaluated on the unmodified helper source under three concrete anchorings (around 0, at the carrier/i32 maximum, at the minimum); distinct by the abstract triple",
                  ["concretiser of abstract integer points and strings (harness/src/facets.rs)", "TLC", "helpers_content.rs is compiled into the harness unmodified by #[path]"])


# ------------------------------------------------------------------------- C15

CORPUS = ["aacc/CustomerWS.wsdl", "aic/agent_wsdl.xml", "aic/version_wsdl.xml", "aic/workflow_wsdl.xml", "blz_service/blz.wsdl",
          "broadband_forum/cwmp-1-2.xsd", "hello/hello.wsdl", "number_services/number_services.wsdl", "simple/simple.xsd",
          "smgr/userimport.xsd", "temp_converter/tempconverter.wsdl", "weather/weather.wsdl", "exchange/services.wsdl"]


def corpus_cases(prop, drv, extra=None):
    cs = []
    for rel in CORPUS:
        p = os.path.join(z.REPO, "resources", rel)
        if os.path.exists(p):
            c = {"prop": prop, "drv": drv, "path": p, "label": "corpus:" + rel, "files": [], "start": ""}
            c.update(extra or {})
            cs.append(c)
    return cs


def check_C15(tier, replay=None):
    R = Result("C15", tier)
    dev = [d for d in z.dev_set() if d in ("D26",)]
    devs = tla_set(dev)
    z.build_harness()
    consts = {"MaxChunks": "3", "MaxLen": "2"} if tier == "quick" else {"MaxChunks": "4", "MaxLen": "3"}
    consts["Dev"] = devs
    c = cfg("MCSpec", consts, invariants=["NeverPanic", "NoFalseSuccess", "FaultReported", "ShortWritesComplete", "NothingAfterFault", "PredictAgrees"],
            properties=["Terminates"])
    res, vocab, cases, _ = mc_run(R, "MC_C15", c, "MC_C15_" + tier, workers=8)
    log(f"MC_C15: {res['distinct']} distinct states, {res['wall']:.1f}s")
    stride = 997 if tier == "quick" else 1
    corpus = corpus_cases("C15", "sink", {"stride": stride})
    if tier != "quick":
        # stride 1 on the exchange document is tens of thousands of write calls x 8 faults: split the indices over 16 workers
        big = [c for c in corpus if "exchange" in c["label"]]
        corpus = [c for c in corpus if c not in big] + [dict(c, parts=16, part=k, label=c["label"] + "#%d" % k) for c in big for k in range(16)]
    cases += corpus
    for i, cs in enumerate(cases):
        cs["id"] = i + 1
        cs["seed"] = z.seed()
        cs["stride"] = stride
    R.cases, R.vocab = cases, vocab
    traces, crashed = z.run_harness(vocab, cases, "C15", shards=len(cases), per_case_timeout=3600)
    tcfg = cfg("TraceSpec", {"Dev": devs}, post="Accepted")
    viol, known, stale, drift = trace_run(R, "Trace_C15", tcfg, traces, "T_C15")
    R.viol, R.drift = viol, len(drift)
    runs = 0
    docs = []
    for t in traces:
        for line in open(t):
            e = json.loads(line)
            if e["ev"] in ("fault_run", "short_run"):
                runs += 1
            if e["ev"] == "plan":
                docs.append({"calls": e["calls"], "bytes": e["bytes"]})
            if e["ev"] == "harness_error":
                raise z.ToolError("harness: " + e["msg"])
    R.extra["fault_and_short_runs"] = runs
    R.extra["documents"] = docs
    R.samples = [{"label": c.get("label"), "start": c.get("start") or c.get("path")} for c in cases[:4]]
    cov_rule = ("documents = 3 TLC-printed schema sets that exercise every emitter + the repository's real schemas; for each document a write failure is injected at every write-call index (every 997th for documents with more than 2000 calls in the quick tier) x error kind class (6 ErrorKind values, Interrupted, Ok(0)) plus indices beyond the end, and 5 short-write patterns; distinct by (document, index, kind)")
    rc = finish(R, "fault_enumeration", cov_rule,
                ["instrumented io::Write sinks of the harness (harness/src/sink.rs)", "TLC", "std::io::Write::write_all as modelled in spec/Sink.tla"])
    # evaluations = runs actually performed
    ev = json.load(open(os.path.join(z.VERIF, "evidence", "C15.json")))
    ev["coverage"]["evaluations"] = runs
    ev["coverage"]["distinct_nontrivial"] = runs
    json.dump(ev, open(os.path.join(z.VERIF, "evidence", "C15.json"), "w"), indent=1)
    return rc


# ------------------------------------------------------------------------- C02

MEMBER_DEVS = ("D08", "D09", "D10", "D11", "D12", "D13", "D14", "D23a", "D23c", "D30", "D32", "D35", "D37", "D39")


def check_C02(tier, replay=None):
    R = Result("C02", tier)
    slices = ("builtins", "positions", "nested", "attrs", "pairs", "recursive", "toplevel", "homonym", "form") + (("positions_all", "triples") if tier == "thorough" else ())
    runs = [("MC_C02_" + s, {"Slice": '"%s"' % s}) for s in slices]
    std_flow(R, "MC_C02", runs, "Trace_Out", {"P": '"C02"'}, MEMBER_DEVS, ["Agreement", "Emit"])
    # xs:annotation inside a model group / inside xs:extension: its own run, because its deviation (D43) is an OPEN
    # finding - listing it for the other slices would switch their design-level invariant (guarded by Dev = {}) off
    std_flow(R, "MC_C02", [("MC_C02_annotated", {"Slice": '"annotated"'})], "Trace_Out", {"P": '"C02"'}, ("D43",), ["Emit"])
    # second observation (the property's observe_at): typed struct literals synthesised from Schema!ExpFields must
    # compile against the generated structs (compile/run pipeline, shared and cached)
    import crpipe
    vocab, cases, events, stats = crpipe.run_pipeline(tier, cr_cases(tier))
    traces = crpipe.write_traces("CR_C02", vocab, cases, events, shards=min(8, len(cases)))
    tcfg = cfg("TraceSpec", {"Dev": "{}", "P": '"C02"', "Tok": "<- TokOfTrace"}, post="Accepted")
    viol, known, stale, drift = trace_run(R, "Trace_CR", tcfg, traces, "T_CR_C02")
    R.viol += viol
    R.extra["typed_driver_cases"] = len(cases)
    R.extra["exhaustive"] = True
    return finish(R, "model_checking",
                  "every type shape of the bounded space (27 builtins x min x max; named complex/simple type of the same and of another namespace, ref, builtin x min x max x 5 positions x occurrence of the enclosing sequence x helper order; attributes; member pairs) is one TLC state on which operational walk = declarative members is checked; each is concretised into a two-file schema set, generated by the real code, and the abstracted structs are judged by TLC against Schema!ExpFields; distinct by shape",
                  ["concretiser, syn-based abstraction (harness/src/absout.rs)", "TLC", "vocabulary tables of MC_C02 (xml / PascalCase / snake_case spellings)"])


# ------------------------------------------------------------------------- C08

def check_C08(tier, replay=None):
    R = Result("C08", tier)
    if tier == "quick":
        runs = [("MC_C08_d2", {"MaxDepth": "2", "Kinds": "<- AllKinds"}), ("MC_C08_d1x", {"MaxDepth": "1", "Kinds": "<- AllKindsX"})]
    else:
        runs = [("MC_C08_d3", {"MaxDepth": "3", "Kinds": "<- AllKinds"}), ("MC_C08_d2x", {"MaxDepth": "2", "Kinds": "<- AllKindsX"})]
    std_flow(R, "MC_C08", runs, "Trace_Out", {"P": '"C08"'}, MEMBER_DEVS, ["Agreement", "BasePrefix", "Emit"])
    # the look-up state machine itself (spec/Lookup.tla): every way up to four declared components refer to each other
    lk_inv = ["TypeOK", "NoStandInIfValid", "AllComplete", "ResolvingExact", "PushedOnce", "BoundedWork", "FinalExact"]
    lk_runs = [("MC_Lookup_4x1", {"Comp": '{"c1","c2","c3","c4","k1"}', "Declared3": "<- Order4", "MaxRefs": "1", "Wide": "FALSE" if tier == "quick" else "TRUE"})]
    if tier != "quick":
        lk_runs.append(("MC_Lookup_3x2", {"Comp": '{"c1","c2","c3","k1"}', "Declared3": "<- Order3", "MaxRefs": "2", "Wide": "FALSE"}))
    for name, consts in lk_runs:
        c = cfg("MCSpec", dict(consts, Dev="{}"), invariants=lk_inv, properties=["Terminates"])
        res = z.tlc(os.path.join(z.SPEC, "mc", "MC_Lookup.tla"), c, workers=8, timeout=1500, name=name)
        if not res["ok"]:
            log(z.tlc_fail_summary(res))
            raise z.ToolError(f"model checking of {name} did not complete cleanly")
        R.add_mc(name, res)
    # vacuity: the code before D36 (references resolved by value) and the seeded memo rule must break the invariants
    for dv, inv in (("D36", "NoStandInIfValid"), ("memo_when_idle", "BoundedWork")):
        c = cfg("MCSpec", dict(lk_runs[0][1], Dev='{"%s"}' % dv), invariants=[inv])
        r2 = z.tlc(os.path.join(z.SPEC, "mc", "MC_Lookup.tla"), c, workers=4, timeout=600, name="MC_Lookup_no_" + dv)
        if r2["ok"]:
            raise z.ToolError(f"vacuity: deviation {dv} does not break {inv} in spec/Lookup.tla")
    R.extra["exhaustive"] = True
    return finish(R, "model_checking",
                  "every extension chain of the bounded space (depth 1..2 quick / 1..3 thorough; own content of every level in {empty, sequence, choice inside a sequence, attributes, sequence+attributes, and - at depth 1 quick / 2 thorough - a repeating choice as the whole content}; a tree (the root base refers to a global element that extends it); base-first / derived-first; root base in the same file or in an imported file of another namespace; a global element with the root base's name before / after it / absent) is one TLC state; each is generated by the real code and every derived struct is judged by TLC (base members first in order, own after, member namespaces, nothing lost or added)",
                  ["concretiser, syn-based abstraction", "TLC", "vocabulary tables of MC_C08"])


# ------------------------------------------------------------------------- C10

def check_C10(tier, replay=None):
    R = Result("C10", tier)
    shapes = ["two", "chain", "star", "diamond"]
    runs = [("MC_C10_" + sh, {"Shape": '"%s"' % sh, "Small": "TRUE" if tier == "quick" else "FALSE"}) for sh in shapes]
    std_flow(R, "MC_C10", runs, "Trace_C10", {}, ("D06", "D06b", "D07", "D38", "D40"), ["RegistryInvariant", "AllModules", "Emit"])
    R.extra["exhaustive"] = True
    # the declaration clauses also on what is generated for the schema sets and WSDLs of MC_CR (envelope structs included)
    import crpipe
    crpipe.run_pipeline(tier, cr_cases(tier))
    gen_traces = glob_traces("CR_" + tier)
    if not gen_traces:
        os.environ["ZV_NOCACHE"] = "1"
        crpipe.run_pipeline(tier, cr_cases(tier))
        os.environ.pop("ZV_NOCACHE", None)
        gen_traces = glob_traces("CR_" + tier)
    v2, _, _, _ = trace_run(R, "Trace_NsOut", cfg("TraceSpec", {}, post="Accepted"), gen_traces, "T_NsOut")
    R.viol += v2
    R.extra["cr_generations_checked"] = len(gen_traces)
    # the writer's emission order (spec/Writer.tla), whose steps Trace_C10 matches against the emit hook events
    wres, _, _, _ = mc_run(R, "MC_Writer", cfg("MCSpec", {}, invariants=["HelpersLast", "HeaderFirst", "Balanced", "EverythingOnce"], properties=["Finishes"]), "MC_Writer", workers=4)
    if tier == "thorough":
        # extra, beyond TLC's bounds: Apalache discharges the inductive invariant of the repaired registry design
        # (unbounded integer URIs and suffixes, any abbreviation function; registries of up to 6 entries)
        import subprocess, tempfile
        work = os.path.join(z.BUILD, "apalache")
        os.makedirs(work, exist_ok=True)
        res = {}
        for nm, args in (("base", ["--init=Init", "--length=0"]), ("step", ["--init=IndInit", "--length=1"])):
            try:
                p = subprocess.run(["apalache-mc", "check", "--cinit=CInit", "--inv=IndInv", "--out-dir=" + work] + args +
                                   [os.path.join(z.SPEC, "apalache", "RegistryInd.tla")], stdout=subprocess.PIPE, stderr=subprocess.STDOUT, timeout=900, cwd=work)
                res[nm] = "NoError" if b"The outcome is: NoError" in p.stdout else "Error"
            except (subprocess.TimeoutExpired, FileNotFoundError) as e:
                res[nm] = "not run: " + type(e).__name__
        R.extra["apalache_inductive_invariant"] = res
        if "Error" in res.values():
            raise z.ToolError("Apalache: the inductive invariant of spec/apalache/RegistryInd.tla does not hold: " + json.dumps(res))
    return finish(R, "model_checking",
                  "file sets over a collision vocabulary of six URIs (equal last segment, dots, dashes, URN): two files (all target-namespace pairs x root declarations under source prefixes a/b x nested declaration), chains and stars of three (both import orders), a diamond of four; each is one TLC state on which RegistryOK(final document) is checked, then generated by the real code; TLC evaluates the injectivity clauses on the modules and prefix/namespaces attributes of the emitted file",
                  ["concretiser, syn-based abstraction", "TLC", "URI vocabulary with abbreviation bases in MC_C10"])


# ------------------------------------------------------------------------- C09

def check_C09(tier, replay=None):
    R = Result("C09", tier)
    runs = [("MC_C09", {})]
    std_flow(R, "MC_C09", runs, "Trace_Out", {"P": '"C09"'}, MEMBER_DEVS, ["Agreement", "Distinguishes", "Emit"])
    R.extra["exhaustive"] = True
    return finish(R, "model_checking",
                  "schema sets in which the local name Thing is reused across two namespaces (complex type + global element in each, distinctive members), across kinds (local element and attribute of that name ahead of / behind everything) and with a builtin (user type called date); a referring type uses type=, ref= and base= with the near or the far prefix, before or after the declarations: every combination is one TLC state (Agreement: look-up = Resolve), generated by the real code; TLC resolves the type path of every field of the emitted structs and compares the struct it denotes with Schema!Resolve",
                  ["concretiser, syn-based abstraction, TLC-side resolution of type paths", "TLC"])


# ------------------------------------------------------------------------- C12

def check_C12(tier, replay=None):
    R = Result("C12", tier)
    dev = [d for d in z.dev_set() if d in ("D05",)]
    devs = tla_set(dev)
    z.build_harness()
    os.environ["ZV_SCRATCH"] = os.path.join(z.BUILD, "scratch")
    consts = {"Ops": '{"o1","o2","o3"}', "Parts": '{"auth","bodyPart","trace"}', "NOps": "4" if tier == "quick" else "5", "Dev": devs}
    invs = ["Deterministic", "SameAsRemembered", "BodyIsUnnamedPart"]
    c = cfg("MCSpec", consts, invariants=invs)
    res, vocab, cases, _ = mc_run(R, "MC_C12", c, "MC_C12", workers=4, need_ok=not dev)
    log(f"MC_C12: {res['distinct']} distinct states")
    cases += corpus_cases("C12", "c12path")
    for i, cs in enumerate(cases):
        cs["id"] = i + 1
        cs["nproc"] = 6 if tier == "quick" else 48
    R.cases, R.vocab = cases, vocab
    traces, crashed = z.run_harness(vocab, cases, "C12", shards=min(len(cases), 8), per_case_timeout=600)
    if tier != "quick":
        # the schema sets of MC_CR (several namespaces, extensions across files, header parts, restricted types) as well
        cr_vocab, cr, _ = cr_cases("quick")()
        cr = [dict(c, prop="C12", drv="c12", nproc=12, id=len(cases) + i + 1) for i, c in enumerate(cr)]
        t2, _ = z.run_harness(cr_vocab, cr, "C12_cr", shards=min(len(cr), 8), per_case_timeout=600)
        traces += t2
        R.cases = cases + cr
    tcfg = cfg("TraceSpec", {"Dev": devs}, post="Accepted")
    viol, known, stale, drift = trace_run(R, "Trace_C12", tcfg, traces, "T_C12")
    R.viol = viol
    for k in known:
        R.known.setdefault("D05", k)
    gens = sum(1 for t in traces for line in open(t) if '"ev": "gen"' in line or '"ev":"gen"' in line)
    R.extra["generations_compared"] = gens
    R.samples = [{"label": c.get("label"), "start": c.get("start") or c.get("path")} for c in cases[:4]]
    return finish(R, "model_checking",
                  "inputs = TLC-printed WSDLs (4-5 operations, a three-part message, an imported and an unrelated schema file) + the repository's schemas; each input is generated under every registration order of its files, three times on one object, from eight threads and in 6 (quick) / 24 (thorough) fresh processes; TLC's observer (Api!memo) requires every generation to equal the first; histories are also the RepeatSame invariant of spec/Imports.tla",
                  ["FNV digest of the emitted bytes", "TLC", "fresh processes get fresh hash seeds (std RandomState)"])


# ------------------------------------------------------------------------- C13

FEATURES = '{"enum_no_value", "start_unknown", "self_reference", "ns_255", "ref_ladder", "import_cycle"}'


def check_C13(tier, replay=None):
    import random
    R = Result("C13", tier)
    dev = [d for d in z.dev_set() if d in ("D24a", "D24b", "D24c", "D24d", "D24e", "D03")]
    devs = tla_set(dev)
    z.build_harness()
    consts = {"Dev": devs, "Features": FEATURES, "MaxIdx": "4" if tier == "quick" else "8", "ChainN": "150" if tier == "quick" else "1500"}
    c = cfg("MCSpec", consts, invariants=["Robust"], properties=["Terminates"])
    res, vocab, _, tagged = mc_run(R, "MC_C13", c, "MC_C13", workers=4, need_ok=not dev)
    bases = [p for t, p in tagged if t == "BASE"]
    muts = [p for t, p in tagged if t == "MUT"]
    log(f"MC_C13: {res['distinct']} states, {len(bases)} bases, {len(muts)} single mutations")
    rnd = random.Random(z.seed())
    cases = []

    def add(base, ms, label):
        c = {"prop": "C13", "drv": "robust", "label": label, "start": base.get("start", ""), "files": base.get("files", []),
             "muts": ms, "feat": sorted(set(base.get("feat", [])) | ({"enum_no_value"} if any(m.get("attr") == "value" and m.get("op") == "drop_attr" for m in ms) else set()))}
        for k in ("path", "start_override"):
            if k in base:
                c[k] = base[k]
        cases.append(c)

    nfiles = lambda b: max(1, len(b.get("files", [])))
    for b in bases:
        add(b, [], b["label"] + "/unmutated")
        if not b.get("mutable"):
            continue
        for m in muts:
            for fi in range(1, nfiles(b) + 1):
                if fi > 1 and m["op"] != "content" and rnd.random() > 0.15:
                    continue       # the second file mostly stays as it is
                add(b, [dict(m, file=fi)], b["label"] + "/" + m["op"])
        npairs = 400 if tier == "quick" else 30000
        for _ in range(npairs):
            m1, m2 = rnd.choice(muts), rnd.choice(muts)
            add(b, [dict(m1, file=1), dict(m2, file=rnd.randint(1, nfiles(b)))], b["label"] + "/pair")
        # thorough: three and four mutations at once (mutations interact: a retargeted QName on a duplicated element ...)
        for k in ((3, 15000), (4, 5000)) if tier != "quick" else ():
            for _ in range(k[1]):
                add(b, [dict(rnd.choice(muts), file=rnd.randint(1, nfiles(b))) for _ in range(k[0])], b["label"] + "/x%d" % k[0])
    # malformed inputs whose WriterError variant the model names (Robust!ErrorOf): matched as drift
    errcases = [p for t, p in tagged if t == "ERRCASE"]
    for ec in errcases:
        b = next((x for x in bases if x["label"] == ec["base"]), None)
        if b:
            add(b, [ec["mut"]], "errclass/" + ec["class"])
            cases[-1]["expect_err"] = ec["err"]
    # the repository's real schemas, mutated
    per_doc = 40 if tier == "quick" else 3000
    for cc in corpus_cases("C13", "robust"):
        if tier == "quick" and "exchange" in cc["path"]:
            per = 4
        else:
            per = per_doc
        base = {"path": cc["path"], "label": cc["label"]}
        add(base, [], cc["label"] + "/unmutated")
        for _ in range(per):
            add(base, [dict(rnd.choice(muts), file=1)], cc["label"] + "/" + "mut")
    for i, cs in enumerate(cases):
        cs["id"] = i + 1
    R.cases, R.vocab = cases, vocab
    log(f"{len(cases)} cases")
    traces, crashed = z.run_harness(vocab, cases, "C13", per_case_timeout=30)
    tcfg = cfg("TraceSpec", {"Dev": devs, "Features": FEATURES}, post="Accepted")
    viol, known, stale, drift = trace_run(R, "Trace_C13", tcfg, traces, "T_C13")
    R.viol = viol
    R.drift += len(drift)
    R.extra["error_variant_drift"] = drift[:10]
    for k in known:
        for d in (k.get("devs") or ["?"]):
            R.known.setdefault(d, k)
    applied = 0
    for t in traces:
        for line in open(t):
            if '"mutated"' in line and '"applied": true' in line.replace('"applied":true', '"applied": true'):
                applied += 1
    R.extra["crashed_or_timed_out_workers"] = crashed
    R.extra["mutations_that_applied"] = applied
    R.extra["not_modelled"] = "byte-level content of arbitrary UTF-8 text inside the XML parser is represented by 11 content classes only; a coverage-guided fuzzer would be the tool for that part"
    R.samples = [{"label": c["label"], "muts": c["muts"]} for c in cases[5:8]]
    rc = finish(R, "model_checking",
                "TLC enumerates the mutation descriptors (drop/alter each of 18 attributes at occurrence 1..4 (8 thorough) with 11 replacement classes; delete/duplicate/move 25 element kinds; wrong roots; 11 whole-file content classes) and prints the base documents (a rich two-file XSD, a WSDL with headers and a one-way operation, a self-/mutually-referential schema, a 26-level forward-reference ladder, an unregistered start file); cases = every base x every single mutation, seeded pairs, and the repository's schemas x seeded mutations; each runs read_xml + write_xml in an isolated worker with a time bound of 2 s + 1 ms/byte; distinct by (base, descriptors); non-trivial = the descriptor applied",
                ["XML-level mutator of the harness (harness/src/mutate.rs)", "TLC", "worker isolation and watchdog of lib/zvlib.py"])
    ev = json.load(open(os.path.join(z.VERIF, "evidence", "C13.json")))
    ev["coverage"]["distinct_nontrivial"] = applied
    json.dump(ev, open(os.path.join(z.VERIF, "evidence", "C13.json"), "w"), indent=1)
    return rc


# ------------------------------------------------------------------------- C17

def check_C17(tier, replay=None):
    R = Result("C17", tier)
    os.environ["ZV_ZEEP_BIN"] = z.build_zeep_bin()
    os.environ["ZV_SCRATCH"] = os.path.join(z.BUILD, "scratch")
    std_flow(R, "MC_C17", [("MC_C17", {})], "Trace_C17", {}, ("D01", "D02"),
             ["DesignOK", "OutcomeAgrees", "Emit"], properties=["Terminates"], per_case_timeout=120)
    runs = sum(1 for t in glob_traces("MC_C17") for line in open(t) if '"cli_run"' in line)
    R.extra["binary_runs"] = runs
    R.extra["exhaustive"] = True
    return finish(R, "model_checking",
                  "every scenario of spec/Cli.tla (path spelling abs/rel/./rel/bare x output default/explicit same dir/explicit other dir x pre-existing output absent/shorter/longer x failing stage none/missing input/malformed XML/unresolved import/unsupported binding/unreadable imported file/missing output directory) is one TLC initial state; each is executed with the real zeep binary from three working directories (input directory, its parent, an unrelated one) in a scratch tree; TLC judges exit status, output-file state (against the bytes the library produces in-process for the same files) and stray files",
                  ["scratch-directory driver (harness/src/cli.rs)", "TLC", "the process runs as root: unreadable means not valid UTF-8, not permission bits"])


def glob_traces(name):
    import glob
    return glob.glob(os.path.join(z.BUILD, "traces", name, "trace_*.ndjson"))


# ------------------------------------------------------------------------- C14

def check_C14(tier, replay=None):
    R = Result("C14", tier)
    runs = [("MC_C14_payload", {"Slice": '"payload"'}), ("MC_C14_keyword", {"Slice": '"keyword"'})]
    std_flow(R, "MC_C14", runs, "Trace_C14", {}, ("D25",), ["DesignSafe", "Emit"])
    R.extra["exhaustive"] = True
    R.extra["not_modelled"] = "compilation and run-time comparison of the literals is part of the compile pipeline (C01); here every case is parsed with a Rust parser and lexed independently"
    return finish(R, "model_checking",
                  "payload cases: 10 payload classes (plain, quote, backslash, braces, LF, CR, comment terminator, comment opener, injection, non-ASCII) x 13 source positions (element/attribute/type/operation/part/service name, enumeration value, facet value, documentation of a simple and a complex type, namespace URI, address, soapAction); keyword cases: 57 keywords (strict, reserved, weak; edition 2024) x 6 naming positions; each is one TLC state (AllSafe on spec/Emit.tla), generated by the real code, the output parsed and lexed, and every occurrence of the marker classified; TLC judges",
                  ["concretiser (XML escaping of the payload)", "independent lexer of the harness (harness/src/lexer.rs) and syn", "TLC"])


# ------------------------------------------------------------------------- C19

def check_C19(tier, replay=None):
    R = Result("C19", tier)
    z.build_harness()
    c = cfg("MCSpec", {"NotForwarded": "{}"}, invariants=["TransparentWhenForwarding", "Emit"])
    res, vocab, cases, _ = mc_run(R, "MC_C19", c, "MC_C19", workers=4)
    # vacuity guard: with any one channel not forwarded the model must find a non-transparent value
    for ch in ("ser", "ser_state", "check", "attrs", "attrs_ns", "check_memo"):
        c2 = cfg("MCSpec", {"NotForwarded": '{"%s"}' % ch}, invariants=["TransparentBroken"])
        r2 = z.tlc(os.path.join(z.SPEC, "mc", "MC_C19.tla"), c2.replace("TransparentBroken", "TransparentAlways"), workers=2, timeout=300, name="MC_C19_no_" + ch)
        if r2["ok"]:
            raise z.ToolError(f"vacuity: dropping channel {ch} does not break transparency in the model")
    for i, cs in enumerate(cases):
        cs["id"] = i + 1
    R.cases, R.vocab = cases, vocab
    log(f"MC_C19: {res['distinct']} states, {len(cases)} probe cases")
    traces, crashed = z.run_harness(vocab, cases, "C19")
    tcfg = cfg("TraceSpec", {"NotForwarded": "{}"}, post="Accepted")
    viol, known, stale, drift = trace_run(R, "Trace_C19", tcfg, traces, "T_C19")
    R.viol = viol
    R.samples = cases[:2]
    R.extra["exhaustive"] = True
    return finish(R, "model_checking",
                  "model: every value tree of a bounded family with wrappers at every position is transparent on the channels ser / attrs / check - the check under every history of one or two handed-down restrictions - when the wrapper forwards them statelessly (and not transparent when any one is dropped or a passed check is remembered); replay: probe types (text-only, attributes, nested with optional and repeated members, self-referential tree, restricted, flattened) x value shapes (text class, optional present/absent, 0..2 items, depth 0..2, attribute present/absent, violating value), each built bare and wrapped against the unmodified helper source; TLC requires every channel (serialised text at the root / as a field / flattened, deserialised Debug text, restriction result once and over a history of five handed-down restrictions - on the value, on a clone, on a deserialised value -, Default, clone sharing) to agree",
                  ["hand-written probe types (harness/src/multiref.rs)", "yaserde 0.12", "TLC"])


# ------------------------------------------------------------------------- compile/run group

def cr_cases(tier):
    def mc():
        R0 = Result("CR", tier)
        vocab, cases = {}, []
        for sl in ("types", "wsdl"):
            c = cfg("MCSpec", {"Dev": "{}", "Slice": '"%s"' % sl, "Tier": '"%s"' % tier, "Tok": "<- TokTab"}, invariants=["WellFormed", "Emit"])
            res, vocab, cs, _ = mc_run(R0, "MC_CR", c, "MC_CR_" + sl, workers=4)
            cases += cs
        for i, c in enumerate(cases):
            c["id"] = i + 1
        # the client/server scenarios of spec/Client.tla
        import crpipe
        c16 = cfg("MCSpec", {"Dev": "{}"}, invariants=["AtMostOnePost", "OkOnlyIf", "AuthIffCreds", "NothingSentOnViolation", "FailuresAreErrors", "OutcomeAgrees", "EmitScn"],
                  properties=["Returns"])
        res, _, _, tagged = mc_run(R0, "MC_C16", c16, "MC_C16", workers=4)
        crpipe.SCENARIOS = [p for t, p in tagged if t == "SCN"]
        return vocab, cases, R0.mc_runs
    return mc


def check_CR(prop, tier, rule, text_assume, known_devs=(), level="model_checking"):
    import crpipe
    R = Result(prop, tier)
    z.build_harness()
    vocab, cases, events, stats = crpipe.run_pipeline(tier, cr_cases(tier))
    for m in stats.get("mc", []):
        R.states += m["distinct"]
        R.transitions += m["states_generated"]
        R.mc_runs.append(m)
    R.cases, R.vocab = cases, vocab
    dev = [d for d in z.dev_set() if d in known_devs]
    traces = crpipe.write_traces("CR_" + prop, vocab, cases, events, shards=min(8, len(cases)))
    tcfg = cfg("TraceSpec", {"Dev": tla_set(dev), "P": '"%s"' % prop, "Tok": "<- TokOfTrace"}, post="Accepted")
    viol, known, stale, drift = trace_run(R, "Trace_CR", tcfg, traces, "T_CR_" + prop)
    R.viol = viol
    for k in known:
        for d in (k.get("devs") or ["?"]):
            R.known.setdefault(d, k)
    if prop == "C05":
        # reader half, step level: the soap_binding hook events of the in-process generations against MC_CR!OpsOf
        gen_traces = glob_traces("CR_" + tier)
        if gen_traces:
            tcfg2 = cfg("TraceSpec", {"Dev": tla_set(dev), "P": '"C05reader"', "Tok": "<- TokOfTrace"}, post="Accepted")
            v2, k2, s2, d2 = trace_run(R, "Trace_CR", tcfg2, gen_traces, "T_CR_C05reader")
            R.viol += v2
            R.extra["reader_level_traces"] = len(gen_traces)
            # vacuity guard: the clause judges the events of the binding the port names - every WSDL case must have one
            names = (vocab.get("names") or {})
            judged, wsdl_cases, cur_b, cur_hit = 0, 0, None, False
            for tf in gen_traces:
                for line in open(tf):
                    if '"ev":"case"' in line or '"ev": "case"' in line:
                        if cur_b is not None and not cur_hit:
                            raise z.ToolError("C05 reader clause is vacuous: no soap_binding event of the used binding in a WSDL case")
                        cs = json.loads(line).get("case", {})
                        bl = cs.get("bindings") or []
                        cur_b = [names.get(b, {}).get("xml", b) for b in bl] if bl else None
                        cur_hit = False
                        wsdl_cases += 1 if bl else 0
                    elif '"soap_binding"' in line and cur_b is not None:
                        nm = json.loads(line).get("name")
                        if any(nm in (b, b + "12") for b in cur_b):
                            cur_hit = True
                            judged += 1
            if cur_b is not None and not cur_hit:
                raise z.ToolError("C05 reader clause is vacuous: no soap_binding event of the used binding in a WSDL case")
            R.extra["reader_bindings_judged"] = judged
    if prop in CR_HOOKS:
        CR_HOOKS[prop](R)
    R.extra["pipeline"] = {k: v for k, v in stats.items() if k != "mc"}
    R.samples = [{"label": c["label"], "kind": c["kind"], "structs": len(c["expect"]), "ops": len(c["ops"])} for c in cases[:4]]
    if level == "other":
        R.extra["explanation"] = "the TLA+ side contributes the set of programs (every operation shape of the WSDL cases of MC_CR) and the expectation; auto-trait inference is rustc's: the synthesised driver passes every returned future to fn assert_send<T: Send>, asserts Send + Sync for the envelope types and spawns each call on a multi-thread tokio runtime; a driver that does not compile is the violation"
    return finish(R, level, rule, text_assume)


CR_HOOKS = {}
CR_ASSUME = ["concretiser; syn-based abstraction; driver synthesiser (lib/crpipe.py); token table (Rust literal, XSD lexical form) of MC_CR", "rustc, yaserde 0.12", "TLC"]


def c01_wide(R, tier="thorough"):
    """C01 over the schema sets of the other bounded instances, through generator and rustc: the recursive slice in the
    quick tier, a sample of all of them in the thorough tier"""
    import crpipe
    plan = [("c02rec", "MC_C02", {"Slice": '"recursive"'}, ["Emit"], 1), ("c09", "MC_C09", {}, ["Emit"], 40)] if tier == "quick" else [("c02pos", "MC_C02", {"Slice": '"positions"'}, ["Emit"], 6), ("c02rec", "MC_C02", {"Slice": '"recursive"'}, ["Emit"], 1),
            ("c02top", "MC_C02", {"Slice": '"toplevel"'}, ["Emit"], 2), ("c02hom", "MC_C02", {"Slice": '"homonym"'}, ["Emit"], 1),
            ("c02nest", "MC_C02", {"Slice": '"nested"'}, ["Emit"], 4),
            ("c08", "MC_C08", {"MaxDepth": "2", "Kinds": "<- AllKindsX"}, ["Emit"], 12), ("c09", "MC_C09", {}, ["Emit"], 5)]
    sources = []
    for k, (label, module, consts, invs, stride) in enumerate(plan):
        c = cfg("MCSpec", dict(consts, Dev="{}"), invariants=invs)
        res, vocab, cases, _ = mc_run(R, module, c, "C01x_" + label, workers=4)
        cases = cases[::stride]
        for i, cs in enumerate(cases):
            cs["id"] = (k + 1) * 100000 + i + 1
            cs["label"] = label
            cs["prop"] = "C01"
        sources.append((label, vocab, cases))
    if tier != "quick":
        # what the generator makes of the repository's own resources must compile too
        cc = corpus_cases("C01", "gen")
        for i, cs in enumerate(cc):
            cs["id"] = 900000 + i + 1
            cs["corpus"] = True
        sources.append(("corpus", {"names": {"x": {"xml": "x"}}}, cc))
    total = 0
    for label, vocab, cases, events in crpipe.compile_only("c01x", sources):
        traces = crpipe.write_traces("C01x_" + label, vocab, cases, {str(k): v for k, v in events.items()}, shards=min(4, len(cases)))
        dev = [d for d in z.dev_set() if d in ("D31", "D33")]
        viol, known, stale, _ = trace_run(R, "Trace_C01x", cfg("TraceSpec", {"Dev": tla_set(dev)}, post="Accepted"), traces, "T_C01x_" + label)
        R.viol += viol
        R.stale += stale
        for kn in known:
            for d in (kn.get("devs") or ["?"]):
                R.known.setdefault(d, kn)
        R.cases += cases
        total += len(cases)
    R.extra["wide_compile_cases"] = total


def check_C01(tier, replay=None):
    CR_HOOKS["C01"] = lambda R: c01_wide(R, tier)
    return check_CR("C01", tier, known_devs=("D34",), rule= "schema sets of MC_CR (27 builtins required/repeated, member positions, extension near/far, restricted simple types, keyword names; WSDLs plain / with headers / one-way / three name styles / imported body element): each is generated by the real code and the emitted file is compiled as a module of a crate whose only dependencies are yaserde, yaserde_derive, xml-rs, log, reqwest and tokio; in addition the schema sets of the other bounded instances go through generator and rustc (quick: the 18 recursive sets of MC_C02; thorough: about 900 sets sampled from MC_C02 positions / nested / toplevel / homonym / recursive, MC_C08 and MC_C09), judged by Trace_C01x against Schema!ByValueCycle", text_assume=CR_ASSUME)


def check_C03(tier, replay=None):
    return check_CR("C03", tier, "for every struct of every MC_CR case a value is built under the plans min / max / mix (optional members absent/present, repeated 0/1/3, leaves at their extremes or needing escaping), serialised by yaserde in a compiled driver, parsed namespace-aware, and TLC compares the infoset with Wire!ExpInfoset (names, namespaces, order, occurrence, lexical forms, prefix bindings); when the image has libxml2's xmllint every serialised document of a schema-only case is also validated against the concrete schema files, and TLC demands acceptance for every component that Wire!Plain says the struct can represent exactly (no choice, no optional or repeated group) - an XSD implementation that shares nothing with the model", CR_ASSUME)


def check_C04(tier, replay=None):
    return check_CR("C04", tier, "instance documents are rendered from Wire!ExpInfoset for every struct x plan in three prefix styles (generated prefixes, renamed prefixes, default namespace), read with yaserde::de::from_str in a compiled driver and re-serialised; TLC compares the re-serialised infoset with the instance; every plan-built value also goes through serialise-deserialise-serialise; plan wide puts values just outside i32 into members of the unbounded integer types", CR_ASSUME, known_devs=("D27",))


def check_C05(tier, replay=None):
    return check_CR("C05", tier, "WSDL cases of MC_CR (plain, header parts with the body part not named by parts=, one-way, three operation name styles, restricted members, body element of an imported namespace): request and response envelopes are built, serialised and compared by TLC with Wire!ExpEnvelope (Body holds exactly the bound body part's element, Header the bound header parts' elements under their own QNames); the response document with other prefixes is parsed back; a compiled driver asserts each method's name, argument type and future output type; the service type's methods are counted; calls against a loopback listener show the path posted to and the address declared", CR_ASSUME)


def check_C07(tier, replay=None):
    return check_CR("C07", tier, "values whose restricted leaves satisfy the effective facets (own + inherited through derivation) must pass check_restrictions(None), requests with a violating restricted leaf (in header or body, bare / optional / repeated) must fail it, and a client call with such a request must return the restriction error with zero accepted connections on the loopback listener", CR_ASSUME)


def check_C16(tier, replay=None):
    return check_CR("C16", tier, "spec/Client.tla (check, connect, send, status, body, parse, return against a scripted server) is model-checked for every scenario (credentials x 4 transport failures + 9 statuses x 5 body classes); every scenario is replayed against every generated client (all for the first operation of a case, a covering subset for the others) with a scripted loopback HTTP listener; TLC compares result class, connections accepted, requests received, method, Basic credentials, request body and returned envelope with Client!Outcome", CR_ASSUME)


def check_C18(tier, replay=None):
    return check_CR("C18", tier, "for every operation of every WSDL case a compiled driver passes the future returned by the client method (and by the free-standing soapAction function) to fn assert_send<T: Send>, asserts Send + Sync for the envelope types, and spawns the call on a multi-thread tokio runtime; rustc is the judge of the model-generated programs", CR_ASSUME, level="other")


CHECKS = {"C01": check_C01, "C03": check_C03, "C04": check_C04, "C05": check_C05, "C07": check_C07, "C16": check_C16, "C18": check_C18, "C19": check_C19, "C14": check_C14, "C17": check_C17, "C13": check_C13, "C12": check_C12, "C09": check_C09, "C10": check_C10, "C08": check_C08, "C11": check_C11, "C06": check_C06, "C15": check_C15, "C02": check_C02}


# ------------------------------------------------------------------------- replay of one stored case

REPLAY = {
    "C02": ("Trace_Out", {"P": '"C02"'}, MEMBER_DEVS), "C08": ("Trace_Out", {"P": '"C08"'}, MEMBER_DEVS), "C09": ("Trace_Out", {"P": '"C09"'}, MEMBER_DEVS),
    "C06": ("Trace_C06", {}, ("D20", "D21")), "C10": ("Trace_C10", {}, ("D06", "D06b", "D07", "D38", "D40")),
    "C11": ("Trace_C11", None, ("D03", "D04", "D28", "D28b")), "C12": ("Trace_C12", {}, ("D05",)),
    "C13": ("Trace_C13", {"Features": FEATURES}, ("D24a", "D24b", "D24c", "D24d", "D24e", "D03")),
    "C14": ("Trace_C14", {}, ("D25",)), "C15": ("Trace_C15", {}, ("D26",)), "C17": ("Trace_C17", {}, ("D01", "D02")),
    "C19": ("Trace_C19", {"NotForwarded": "{}"}, None),
}
CR_PROPS = ("C01", "C03", "C04", "C05", "C07", "C16", "C18")


def replay_case(prop, path):
    """re-run one stored case (a replay directory written by a failing check) alone"""
    cp = os.path.join(path, "cases.ndjson")
    if not os.path.exists(cp):
        raise z.ToolError(f"no cases.ndjson in {path}")
    lines = open(cp).read().splitlines()
    vocab = json.loads(lines[0])["vocab"]
    cases = [json.loads(l) for l in lines[1:] if l.strip()]
    R = Result(prop, "quick")
    R.cases, R.vocab = cases, vocab
    z.build_harness()
    os.environ["ZV_SCRATCH"] = os.path.join(z.BUILD, "scratch")
    if prop in CR_PROPS:
        import crpipe
        os.environ["ZV_NOCACHE"] = "1"
        mc = cr_cases("quick")
        def only():
            v, _, runs = mc()          # scenarios and vocabulary come from the specification, the case from the replay directory
            return vocab or v, cases, runs
        v2, c2, events, stats = crpipe.run_pipeline("replay", only)
        traces = crpipe.write_traces("replay_" + prop, v2, c2, events, shards=1)
        dev = [d for d in z.dev_set() if d in ("D27",)]
        tcfg = cfg("TraceSpec", {"Dev": tla_set(dev), "P": '"%s"' % prop, "Tok": "<- TokOfTrace"}, post="Accepted")
        viol, known, stale, drift = trace_run(R, "Trace_CR", tcfg, traces, "T_replay_" + prop)
    else:
        if prop == "C17":
            os.environ["ZV_ZEEP_BIN"] = z.build_zeep_bin()
        module, consts, devs = REPLAY[prop]
        if prop == "C11":
            files = sorted({f["name"] for c in cases for f in c.get("files", [])})
            consts = {"File": "{" + ", ".join('"%s"' % f for f in files) + "}", "MaxCalls": str(max(c.get("ncalls", 1) for c in cases)),
                      "RefsOn": "TRUE" if any(c.get("refs") for c in cases) else "FALSE"}
        consts = dict(consts)
        if devs is not None:
            consts["Dev"] = tla_set([d for d in z.dev_set() if d in devs])
        traces, crashed = z.run_harness(vocab, cases, "replay_" + prop, shards=1, per_case_timeout=120,
                                        dump=os.path.join(z.BUILD, "replay_dump", prop))
        tcfg = cfg("TraceSpec", consts, post="Accepted")
        viol, known, stale, drift = trace_run(R, module, tcfg, traces, "T_replay_" + prop)
    for v in viol:
        print(f"VIOLATION property={prop} replay={path}")
        log("violation instance:", json.dumps(v))
        break
    for v in viol[1:6]:
        log("violation instance:", json.dumps(v))
    for k in known[:3]:
        log("known instance:", json.dumps(k))
    if not viol:
        log(f"replay of {path}: no violation ({len(known)} known instance(s))")
    return 1 if viol else 0


def main(argv):
    if not argv:
        print(__doc__)
        return 2
    prop = argv[0]
    tier = os.environ.get("VERIF_TIER", "quick")
    replay = None
    for a in argv[1:]:
        if a in ("quick", "thorough"):
            tier = a
    if "--replay" in argv:
        replay = argv[argv.index("--replay") + 1]
    if prop not in CHECKS:
        print(f"unknown property {prop}", file=sys.stderr)
        return 2
    try:
        if replay:
            return replay_case(prop, replay)
        return CHECKS[prop](tier, replay)
    except z.ToolError as e:
        log("TOOL ERROR:", e)
        return 2
    except Exception:
        traceback.print_exc()
        return 2
