#!/bin/bash
# run every claimed check (quick by default) and print one line per property
tier=${1:-quick}
cd "$(dirname "$0")/.."
for p in $(python3 -c "import json;print(' '.join(c['property_id'] for c in json.load(open('MANIFEST.json'))['checks']))"); do
  s=$(date +%s); ./check $p $tier > build/all_$p.out 2>&1; rc=$?; e=$(date +%s)
  echo "$p rc=$rc $((e-s))s $(grep -c '^VIOLATION' build/all_$p.out) viol $(grep -c '^KNOWN-FINDING' build/all_$p.out) known $(grep -c '^MODEL-DRIFT' build/all_$p.out) drift"
done
