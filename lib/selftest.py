"""Self-test of the binding between specification and code.

  python3 lib/selftest.py traces    corrupt a recorded trace / drop a hook event: the trace specification must notice
  python3 lib/selftest.py seeds     every stored seeded change must turn its property's check red (and the tree is restored)
"""
import json, os, subprocess, sys, shutil
sys.path.insert(0, os.path.dirname(os.path.abspath(__file__)))
import zvlib as z, props


def tlc_trace(module, consts, trace, name):
    r = z.tlc(os.path.join(z.SPEC, "trace", module + ".tla"), props.cfg("TraceSpec", consts, post="Accepted"), workers=1, timeout=600,
              env_extra={"TRACE": trace}, name=name, heap="2g", deque=True)
    tags = {}
    for t, p in z.parse_tagged(r["stdout"]):
        tags[t] = tags.get(t, 0) + 1
    return r["ok"], tags


def traces():
    """needs a C11 quick run (its recorded traces are the material)"""
    subprocess.run([os.path.join(z.VERIF, "check"), "C11", "quick"], stdout=subprocess.DEVNULL, stderr=subprocess.DEVNULL)
    src = os.path.join(z.BUILD, "traces", "MC_C11_f3", "trace_0.ndjson")
    lines = open(src).read().splitlines()
    consts = {"File": '{"f1.xsd","f2.xsd","f3.xsd"}', "Dev": "{}", "MaxCalls": "2", "RefsOn": "FALSE"}
    d = os.path.join(z.BUILD, "selftest")
    os.makedirs(d, exist_ok=True)
    ok = True
    # 0. the unmodified trace is accepted silently
    good, tags = tlc_trace("Trace_C11", consts, src, "st_base")
    print("unmodified trace:", "accepted" if good else "REJECTED", tags)
    ok &= good and not tags.get("VIOL") and not tags.get("DRIFT")
    # 1. one recorded field corrupted: an enter_file event names another file
    idx = [i for i, l in enumerate(lines) if '"enter_file"' in l]
    k = idx[len(idx) // 2]
    e = json.loads(lines[k])
    e["file"] = "f3.xsd" if e["file"] != "f3.xsd" else "f1.xsd"
    p1 = os.path.join(d, "corrupt_field.ndjson")
    open(p1, "w").write("\n".join(lines[:k] + [json.dumps(e)] + lines[k + 1:]) + "\n")
    good, tags = tlc_trace("Trace_C11", consts, p1, "st_field")
    print("corrupted field  :", tags)
    ok &= bool(tags.get("DRIFT") or tags.get("VIOL"))
    # 2. one hook removed: an import event is missing
    idx = [i for i, l in enumerate(lines) if '"ev": "import"' in l or '"ev":"import"' in l]
    k = idx[len(idx) // 3]
    p2 = os.path.join(d, "dropped_hook.ndjson")
    open(p2, "w").write("\n".join(lines[:k] + lines[k + 1:]) + "\n")
    good, tags = tlc_trace("Trace_C11", consts, p2, "st_hook")
    print("dropped hook     :", tags)
    ok &= bool(tags.get("DRIFT") or tags.get("VIOL"))
    # 3. an observation corrupted: the abstracted output loses a struct
    idx = [i for i, l in enumerate(lines) if '"ev": "written"' in l and '"out"' in l]
    k = idx[len(idx) // 2]
    e = json.loads(lines[k])
    for m in e["out"]["mods"]:
        m["items"] = [it for it in m["items"] if it.get("k") != "struct"][:]
        break
    p3 = os.path.join(d, "lost_struct.ndjson")
    open(p3, "w").write("\n".join(lines[:k] + [json.dumps(e)] + lines[k + 1:]) + "\n")
    good, tags = tlc_trace("Trace_C11", consts, p3, "st_obs")
    print("lost struct      :", tags)
    ok &= bool(tags.get("VIOL"))
    print("SELFTEST traces:", "ok" if ok else "FAILED")
    return 0 if ok else 1


def seeds():
    sd = os.path.join(z.VERIF, "seeded")
    bad = 0
    for name in sorted(os.listdir(sd)):
        meta = json.load(open(os.path.join(sd, name, "meta.json")))
        if meta.get("live_at_head") is False:
            print("skipped (behaviour-preserving at HEAD) " + name)
            continue
        p = subprocess.run([os.path.join(z.VERIF, "lib", "run_seed.sh"), name, meta.get("caught_by", meta["property"]), "quick"], stdout=subprocess.PIPE, stderr=subprocess.STDOUT)
        line = p.stdout.decode().splitlines()[0] if p.stdout else ""
        if meta.get("expect") == "drift":
            good = ", 0 drift" not in line and p.returncode in (0, 1)
        else:
            good = p.returncode == 1
        print(("caught " if good else "MISSED ") + line)
        bad += not good
    print("SELFTEST seeds:", "ok" if bad == 0 else f"{bad} missed")
    return 0 if bad == 0 else 1


if __name__ == "__main__":
    sys.exit({"traces": traces, "seeds": seeds}[sys.argv[1]]())
