"""Self-test of the binding between specification and code.

  python3 lib/selftest.py traces    corrupt a recorded trace / drop a hook event: the trace specification must notice
  python3 lib/selftest.py devs      every as-built switch of the specification has a witness in the bounded instances
  python3 lib/selftest.py seeds     every stored seeded change must turn its property's check red (and the tree is restored)
"""
import json, os, subprocess, sys, shutil
sys.path.insert(0, os.path.dirname(os.path.abspath(__file__)))
import zvlib as z, props


def tlc_trace(module, consts, trace, name):
    r = z.tlc(os.path.join(z.SPEC, "trace", module + ".tla"), props.cfg("TraceSpec", consts, post="Accepted"), workers=1, timeout=600,
              env_extra={"TRACE": trace}, name=name, heap="2g", deque=True)
    tags = {}
    for t, p in z.parse_tagged(r["stdout"]):
        tags[t] = tags.get(t, 0) + 1
    return r["ok"], tags


def traces():
    """needs a C11 quick run (its recorded traces are the material)"""
    subprocess.run([os.path.join(z.VERIF, "check"), "C11", "quick"], stdout=subprocess.DEVNULL, stderr=subprocess.DEVNULL)
    src = os.path.join(z.BUILD, "traces", "MC_C11_f3", "trace_0.ndjson")
    lines = open(src).read().splitlines()
    consts = {"File": '{"f1.xsd","f2.xsd","f3.xsd"}', "Dev": "{}", "MaxCalls": "2", "RefsOn": "FALSE"}
    d = os.path.join(z.BUILD, "selftest")
    os.makedirs(d, exist_ok=True)
    ok = True
    # 0. the unmodified trace is accepted silently
    good, tags = tlc_trace("Trace_C11", consts, src, "st_base")
    print("unmodified trace:", "accepted" if good else "REJECTED", tags)
    ok &= good and not tags.get("VIOL") and not tags.get("DRIFT")
    # 1. one recorded field corrupted: an enter_file event names another file
    idx = [i for i, l in enumerate(lines) if '"enter_file"' in l]
    k = idx[len(idx) // 2]
    e = json.loads(lines[k])
    e["file"] = "f3.xsd" if e["file"] != "f3.xsd" else "f1.xsd"
    p1 = os.path.join(d, "corrupt_field.ndjson")
    open(p1, "w").write("\n".join(lines[:k] + [json.dumps(e)] + lines[k + 1:]) + "\n")
    good, tags = tlc_trace("Trace_C11", consts, p1, "st_field")
    print("corrupted field  :", tags)
    ok &= bool(tags.get("DRIFT") or tags.get("VIOL"))
    # 2. one hook removed: an import event is missing
    idx = [i for i, l in enumerate(lines) if '"ev": "import"' in l or '"ev":"import"' in l]
    k = idx[len(idx) // 3]
    p2 = os.path.join(d, "dropped_hook.ndjson")
    open(p2, "w").write("\n".join(lines[:k] + lines[k + 1:]) + "\n")
    good, tags = tlc_trace("Trace_C11", consts, p2, "st_hook")
    print("dropped hook     :", tags)
    ok &= bool(tags.get("DRIFT") or tags.get("VIOL"))
    # 3. an observation corrupted: the abstracted output loses a struct
    idx = [i for i, l in enumerate(lines) if '"ev": "written"' in l and '"out"' in l]
    k = idx[len(idx) // 2]
    e = json.loads(lines[k])
    for m in e["out"]["mods"]:
        m["items"] = [it for it in m["items"] if it.get("k") != "struct"][:]
        break
    p3 = os.path.join(d, "lost_struct.ndjson")
    open(p3, "w").write("\n".join(lines[:k] + [json.dumps(e)] + lines[k + 1:]) + "\n")
    good, tags = tlc_trace("Trace_C11", consts, p3, "st_obs")
    print("lost struct      :", tags)
    ok &= bool(tags.get("VIOL"))
    print("SELFTEST traces:", "ok" if ok else "FAILED")
    return 0 if ok else 1


def seeds():
    """every stored seeded change must turn its check red; `seeds <first-id>` starts at that seed (the run takes hours)"""
    sd = os.path.join(z.VERIF, "seeded")
    bad = 0
    first = sys.argv[2] if len(sys.argv) > 2 else ""
    for name in sorted(os.listdir(sd)):
        if name < first or any(t and (name.startswith(t) or name.endswith(t)) for t in os.environ.get("ZV_SKIP", "").split(",")):
            continue
        meta = json.load(open(os.path.join(sd, name, "meta.json")))
        if meta.get("live_at_head") is False:
            print("skipped (behaviour-preserving at HEAD) " + name)
            continue
        p = subprocess.run([os.path.join(z.VERIF, "lib", "run_seed.sh"), name, meta.get("caught_by", meta["property"]), "quick"], stdout=subprocess.PIPE, stderr=subprocess.STDOUT)
        line = p.stdout.decode().splitlines()[0] if p.stdout else ""
        if meta.get("expect") == "drift":
            good = ", 0 drift" not in line and p.returncode in (0, 1)
        else:
            good = p.returncode == 1
        print(("caught " if good else "MISSED ") + line)
        bad += not good
    print("SELFTEST seeds:", "ok" if bad == 0 else f"{bad} missed")
    return 0 if bad == 0 else 1


def benign():
    """every stored behaviour-preserving change (benign/<id>) must leave every check quiet (exit 0; drift is allowed)"""
    bd = os.path.join(z.VERIF, "benign")
    bad = 0
    for name in sorted(os.listdir(bd)):
        p = subprocess.run([os.path.join(z.VERIF, "lib", "run_benign.sh"), name, "quick"], stdout=subprocess.PIPE, stderr=subprocess.STDOUT)
        out = p.stdout.decode().splitlines()
        print(("quiet  " if p.returncode == 0 else "ALARM  ") + (out[0] if out else name))
        for l in out[1:]:
            print("        " + l)
        bad += p.returncode != 0
    print("SELFTEST benign:", "ok" if bad == 0 else f"{bad} changes raised an alarm")
    return 0 if bad == 0 else 1


def devs():
    """Every as-built switch of the specification must have a witness in the bounded instances: with the deviation
    switched on, TLC has to find a state that violates the (unguarded) design-level invariant.  A switch without a
    witness would mean the case space cannot tell the repaired code from the code as it was."""
    import props
    cfg = props.cfg
    F3C = {"File": '{"f1.xsd","f2.xsd","f3.xsd"}', "FileSeq": "<- FileSeq3", "Extras": "<- NoExtras", "Siblings": "<- NoSib", "Sample": "1", "SameNs": "FALSE"}
    table = [
        ("MC_C02", [{"Slice": '"%s"' % sl} for sl in ("builtins", "positions", "nested", "attrs", "pairs", "toplevel", "form", "homonym")], "AgreementD",
         ["D08", "D09", "D10", "D11", "D13", "D14", "D30", "D32", "D35", "D39"]),
        ("MC_C02", [{"Slice": '"annotated"'}], "AgreementD", ["D43"]),
        ("MC_C08", [{"MaxDepth": "1", "Kinds": "<- AllKindsX"}], "AgreementD", ["D12", "D14", "D23a", "D32"]),
        ("MC_C09", [{}], "AgreementD", ["D23a", "D23c", "D37"]),
        ("MC_C06", [{"Slice": '"int"'}, {"Slice": '"str"'}], "AgreementD", ["D20", "D21"]),
        ("MC_C10", [{"Shape": '"%s"' % sh, "Small": "TRUE"} for sh in ("two", "chain", "star", "diamond")], "RegistryInvariantD", ["D06", "D06b"]),
        ("MC_C14", [{"Slice": '"payload"'}], "DesignSafeD", ["D25"]),
        ("MC_C17", [{}], "DesignOKD", ["D01", "D02"]),
        ("MC_C11", [dict(F3C, RefsOn="FALSE", MaxCalls="2")], "NoOverflow", ["D03"]),
        ("MC_C11", [dict(F3C, RefsOn="FALSE", MaxCalls="2")], "RepeatSame", ["D04"]),
        ("MC_C11", [dict(F3C, RefsOn="TRUE", MaxCalls="1")], "Complete", ["D28", "D28b"]),
        ("MC_C15", [{"MaxChunks": "3", "MaxLen": "2"}], "NeverPanic", ["D26"]),
        ("MC_C12", [{"Ops": '{"o1","o2","o3"}', "Parts": '{"auth","bodyPart","trace"}', "NOps": "4"}], "Deterministic", ["D05"]),
        ("MC_C13", [{"Features": props.FEATURES, "MaxIdx": "4", "ChainN": "5"}], "Robust", ["D24a", "D24b", "D24c", "D24d", "D24e"]),
    ]
    bad = 0
    for module, consts_list, inv, ds in table:
        for d in ds:
            found = None
            for k, consts in enumerate(consts_list):
                c = cfg("MCSpec", dict(consts, Dev='{"%s"}' % d), invariants=[inv])
                r = z.tlc(os.path.join(z.SPEC, "mc", module + ".tla"), c, workers=4, timeout=600, name=f"devs_{module}_{d}_{k}")
                if not r["ok"] and "Invariant " + inv + " is violated" in r["stdout"]:
                    found = consts
                    break
            print(f"{module:8} {d:5} {'witness in ' + json.dumps(found) if found is not None else 'NO WITNESS'}")
            bad += found is None
    print("SELFTEST devs:", "ok" if bad == 0 else f"{bad} switches without a witness")
    return 0 if bad == 0 else 1


if __name__ == "__main__":
    sys.exit({"traces": traces, "seeds": seeds, "devs": devs, "benign": benign}[sys.argv[1]]())
