"""helper: print a TLA+ Vocab names table for camelCase / PascalCase identifiers (letters only)"""
import re, sys
def words(n):
    return [w.lower() for w in re.findall(r'[A-Z]?[a-z]+|[A-Z]+(?![a-z])', n)]
def entry(n):
    w = words(n)
    return f'{n} |-> N("{n}", "{"".join(x.capitalize() for x in w)}", "{"_".join(w)}")'
if __name__ == "__main__":
    names = sys.argv[1:]
    print(",\n                     ".join(entry(n) for n in names))
