"""setup: build the harness (and its dependencies) offline; sanity-check the TLA+ tools."""
import os, subprocess, sys
sys.path.insert(0, os.path.dirname(os.path.abspath(__file__)))
import zvlib as z

def main():
    os.makedirs(z.BUILD, exist_ok=True)
    lock = os.path.join(z.VERIF, "harness", "Cargo.lock")
    if not os.path.exists(lock):
        import shutil
        shutil.copy(os.path.join(z.REPO, "Cargo.lock"), lock)
    t = z.build_harness()
    print(f"harness built in {t:.0f}s")
    z.build_zeep_bin()
    print("zeep binary built")
    p = subprocess.run(["java", "-cp", z.TLA_CP, "tlc2.TLC", "-h"], stdout=subprocess.PIPE, stderr=subprocess.STDOUT)
    if b"TLC" not in p.stdout:
        print("TLC not runnable", file=sys.stderr)
        return 2
    return 0

if __name__ == "__main__":
    sys.exit(main())
