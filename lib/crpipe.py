"""Compile/run pipeline: generated files are compiled as modules of a driver crate that depends only on the
documented crates (never on zeep); the driver is synthesised from the TLC-printed case (expected struct table,
operation shapes, expected infosets) and from the observed shape of the generated structs, and prints one event
per observation.  Nothing here judges: the events go to TLC (spec/trace/Trace_CR.tla).
"""
import json, os, re, shutil, subprocess, sys, hashlib, time
import zvlib as z
from zvlib import log

RUST_BUILTINS = {"String", "i8", "i16", "i32", "i64", "u8", "u16", "u32", "u64", "f32", "f64", "bool"}

CARGO_TOML = """[package]
name = "zvdrv"
version = "0.1.0"
edition = "2024"

[workspace]

# the dependencies the generated code is documented to need - and nothing of zeep
[dependencies]
yaserde = "0.12"
yaserde_derive = "0.12"
xml-rs = "0.8"
log = "0.4"
reqwest = { version = "0.12", default-features = false, features = ["blocking", "rustls-tls"] }
tokio = { version = "1", features = ["full"] }

[profile.dev]
opt-level = 0
debug = 0
incremental = false
"""

SUPPORT_RS = r'''#![allow(warnings)]
//! run-time support of the synthesised driver: event output, scripted loopback HTTP server
use std::io::{Read, Write};
use std::net::{TcpListener, TcpStream};
use std::sync::{Arc, Mutex};

pub fn esc(s: &str) -> String {
    let mut o = String::with_capacity(s.len() + 2);
    o.push('"');
    for c in s.chars() {
        match c {
            '"' => o.push_str("\\\""),
            '\\' => o.push_str("\\\\"),
            '\n' => o.push_str("\\n"),
            '\r' => o.push_str("\\r"),
            '\t' => o.push_str("\\t"),
            c if (c as u32) < 0x20 => o.push_str(&format!("\\u{:04x}", c as u32)),
            c => o.push(c),
        }
    }
    o.push('"');
    o
}

pub struct Events {
    pub lines: Vec<String>,
}
impl Events {
    pub fn new() -> Self { Events { lines: vec![] } }
    pub fn push(&mut self, case: u64, ev: &str, fields: &[(&str, String)]) {
        let mut s = format!("{{\"ev\":{},\"case\":{}", esc(ev), case);
        for (k, v) in fields {
            s.push_str(&format!(",{}:{}", esc(k), v));
        }
        s.push('}');
        println!("{s}");
    }
}
pub fn s(v: &str) -> String { esc(v) }
pub fn b(v: bool) -> String { v.to_string() }
pub fn n(v: usize) -> String { v.to_string() }

pub fn assert_send<T: Send>(_: &T) {}
pub fn assert_send_sync<T: Send + Sync>() {}

/// what the scripted server does with the one connection it expects
#[derive(Clone, Debug)]
pub enum Script {
    Reply { status: u16, body: String },
    CloseBeforeHeaders,
    CloseAfterHeaders,
    Truncate { status: u16, body: String },
    Overlong { status: u16, body: String },
}

#[derive(Default, Clone, Debug)]
pub struct Seen {
    pub accepted: usize,
    pub requests: Vec<(String, String, Vec<(String, String)>, String)>, // method, path, headers, body
}

pub struct Server {
    pub port: u16,
    pub seen: Arc<Mutex<Seen>>,
    stop: Arc<Mutex<bool>>,
    handle: Option<std::thread::JoinHandle<()>>,
}

fn read_request(stream: &mut TcpStream) -> Option<(String, String, Vec<(String, String)>, String)> {
    stream.set_read_timeout(Some(std::time::Duration::from_secs(5))).ok();
    let mut buf = Vec::new();
    let mut tmp = [0u8; 4096];
    let header_end;
    loop {
        match stream.read(&mut tmp) {
            Ok(0) => return None,
            Ok(k) => buf.extend_from_slice(&tmp[..k]),
            Err(_) => return None,
        }
        if let Some(p) = buf.windows(4).position(|w| w == b"\r\n\r\n") {
            header_end = p + 4;
            break;
        }
    }
    let head = String::from_utf8_lossy(&buf[..header_end]).to_string();
    let mut lines = head.split("\r\n");
    let first = lines.next().unwrap_or("");
    let mut it = first.split_whitespace();
    let method = it.next().unwrap_or("").to_string();
    let path = it.next().unwrap_or("").to_string();
    let mut headers = vec![];
    let mut len = 0usize;
    for l in lines {
        if let Some((k, v)) = l.split_once(':') {
            let k = k.trim().to_lowercase();
            let v = v.trim().to_string();
            if k == "content-length" { len = v.parse().unwrap_or(0); }
            headers.push((k, v));
        }
    }
    let mut body = buf[header_end..].to_vec();
    while body.len() < len {
        match stream.read(&mut tmp) {
            Ok(0) => break,
            Ok(k) => body.extend_from_slice(&tmp[..k]),
            Err(_) => break,
        }
    }
    Some((method, path, headers, String::from_utf8_lossy(&body).to_string()))
}

impl Server {
    /// serves connections according to `script` until dropped
    pub fn start(script: Script) -> Server {
        let listener = TcpListener::bind("127.0.0.1:0").expect("bind");
        listener.set_nonblocking(true).ok();
        let port = listener.local_addr().unwrap().port();
        let seen = Arc::new(Mutex::new(Seen::default()));
        let stop = Arc::new(Mutex::new(false));
        let (seen2, stop2) = (seen.clone(), stop.clone());
        let handle = std::thread::spawn(move || {
            loop {
                if *stop2.lock().unwrap() { break; }
                match listener.accept() {
                    Ok((mut stream, _)) => {
                        stream.set_nonblocking(false).ok();
                        seen2.lock().unwrap().accepted += 1;
                        match &script {
                            Script::CloseBeforeHeaders => {
                                if let Some(req) = read_request(&mut stream) { seen2.lock().unwrap().requests.push(req); }
                                drop(stream);
                            }
                            sc => {
                                if let Some(req) = read_request(&mut stream) {
                                    seen2.lock().unwrap().requests.push(req);
                                }
                                match sc {
                                    Script::Reply { status, body } => {
                                        let _ = write!(stream, "HTTP/1.1 {} X\r\nContent-Type: text/xml\r\nContent-Length: {}\r\nConnection: close\r\n\r\n{}", status, body.len(), body);
                                    }
                                    Script::CloseAfterHeaders => {
                                        let _ = write!(stream, "HTTP/1.1 200 OK\r\nContent-Type: text/xml\r\nContent-Length: 500\r\nConnection: close\r\n\r\n");
                                    }
                                    Script::Truncate { status, body } => {
                                        let half = &body[..body.len() / 2];
                                        let _ = write!(stream, "HTTP/1.1 {} X\r\nContent-Type: text/xml\r\nContent-Length: {}\r\nConnection: close\r\n\r\n{}", status, body.len(), half);
                                    }
                                    Script::Overlong { status, body } => {
                                        let _ = write!(stream, "HTTP/1.1 {} X\r\nContent-Type: text/xml\r\nContent-Length: {}\r\nConnection: close\r\n\r\n{}", status, body.len() + 64, body);
                                    }
                                    _ => {}
                                }
                                let _ = stream.flush();
                            }
                        }
                    }
                    Err(_) => std::thread::sleep(std::time::Duration::from_millis(2)),
                }
            }
        });
        Server { port, seen, stop, handle: Some(handle) }
    }
    pub fn seen(&self) -> Seen { self.seen.lock().unwrap().clone() }
}
impl Drop for Server {
    fn drop(&mut self) {
        *self.stop.lock().unwrap() = true;
        if let Some(h) = self.handle.take() { let _ = h.join(); }
    }
}

/// a port on which nothing listens
pub fn refused_port() -> u16 {
    let l = TcpListener::bind("127.0.0.1:0").expect("bind");
    let p = l.local_addr().unwrap().port();
    drop(l);
    p
}
'''


def rs_str(s):
    return '"' + s.replace("\\", "\\\\").replace('"', '\\"').replace("\n", "\\n").replace("\r", "\\r") + '"'


class Obs:
    """observed abstract output of one generated file"""

    def __init__(self, out):
        self.out = out or {"mods": [], "root": [], "parses": False}
        self.structs = {}       # (mod, name) -> struct
        self.mod_of_ns = {}     # uri -> module name
        for m in self.out.get("mods", []):
            for it in m["items"]:
                if it.get("k") == "struct":
                    self.structs[(m["name"], it["name"])] = it
                    ns = self.own_ns(it)
                    if ns:
                        self.mod_of_ns.setdefault(ns, m["name"])
        for it in self.out.get("root", []):
            if it.get("k") == "struct":
                self.structs[("", it["name"])] = it
        self.aliases = {}
        for m in self.out.get("mods", []):
            for it in m["items"]:
                if it.get("k") == "alias":
                    self.aliases[(m["name"], it["name"])] = it

    @staticmethod
    def own_ns(s):
        y = s.get("y") or {}
        p = y.get("prefix")
        for a, u in y.get("namespaces", []) or []:
            if a == p:
                return u
        return None

    def find_struct(self, uri, xml):
        for (m, n), s in self.structs.items():
            if self.own_ns(s) == uri and (s.get("y") or {}).get("rename", s["name"]) == xml:
                return m, s
        return None, None

    def resolve(self, mod, seg):
        """type path segments -> ('builtin', name) | ('struct', mod, struct) | None"""
        for _ in range(4):
            if not seg:
                return None
            if len(seg) == 1 and seg[0] in RUST_BUILTINS:
                return ("builtin", seg[0])
            mm = seg[-2] if len(seg) >= 2 else mod
            nm = seg[-1]
            if (mm, nm) in self.structs:
                return ("struct", mm, self.structs[(mm, nm)])
            if len(seg) == 1 and ("", nm) in self.structs:
                return ("struct", "", self.structs[("", nm)])
            if (mm, nm) in self.aliases:
                seg, mod = self.aliases[(mm, nm)].get("seg", []), mm
                continue
            return None
        return None


def path_of(mod, name):
    return f"g::{mod}::{name}" if mod else f"g::{name}"


class Synth:
    def __init__(self, vocab, case, obs):
        self.v, self.c, self.o = vocab, case, obs
        self.tok = vocab.get("tokens", {})
        self.invalid_choice = None    # which of the specification's invalid texts a violating value uses
        self.uris = {k: r["uri"] for k, r in vocab.get("uris", {}).items()}

    def uri(self, uid):
        return self.uris.get(uid, uid)

    # ---- typed literals from the EXPECTED struct table (C02's observe_at, part of C01)
    def expected_type(self, tgt, w):
        if tgt["k"] == "builtin":
            t = tgt["rust"]
        elif tgt["k"] == "struct":
            m = self.o.mod_of_ns.get(self.uri(tgt["ns"]))
            if m is None:
                return None
            t = path_of(m, tgt["pascal"])
        else:
            return None
        return {"Bare": t, "Option": f"Option<{t}>", "Vec": f"Vec<{t}>"}[w]

    def typed_literals(self):
        lines = []
        for s in self.c["expect"]:
            m = self.o.mod_of_ns.get(self.uri(s["ns"]))
            if m is None:
                lines.append(f"    // no module observed for namespace {s['ns']}")
                lines.append(f"    let _unresolved: () = NO_MODULE_FOR_{re.sub('[^A-Za-z0-9]', '_', s['ns'])};")
                continue
            if s["kind"] == "simple":
                lines.append(f"    {{ let _t: Option<{path_of(m, s['pascal'])}> = None; }}")
                continue
            fl = []
            for f in s["fields"]:
                et = self.expected_type(f["target"], f["w"])
                if et is None:
                    fl.append(f"{f['snake']}: UNRESOLVED_TARGET")
                else:
                    fl.append(f"{f['snake']}: {{ let x: {et} = Default::default(); x }}")
            lines.append(f"    {{ let _v = {path_of(m, s['pascal'])} {{ {', '.join(fl)} }}; }}")
        return "pub fn typed() {\n" + "\n".join(lines) + "\n}\n"

    # ---- values built from the OBSERVED shape under a value plan
    @staticmethod
    def present(plan, i):
        return plan == "max" or (plan == "mix" and i % 2 == 1)

    def leaf(self, rust, plan):
        tok = {"min": "lo", "max": "hi", "mix": "esc"}[plan]
        t = self.tok.get(rust)
        return t[tok]["lit"] if t else "Default::default()"

    def exp_struct(self, ns_id, xml):
        for e in self.c["expect"]:
            if e["ns"] == ns_id and e["xml"] == xml:
                return e
        return None

    def exp_for_obs(self, st):
        """the expected struct an observed struct stands for (by namespace URI and XML name)"""
        uri = Obs.own_ns(st)
        xml = (st.get("y") or {}).get("rename", st["name"])
        for e in self.c["expect"]:
            if self.uri(e["ns"]) == uri and e["xml"] == xml:
                return e
        return None

    def tok_key(self, xsd, carrier):
        """Wire!TokKey: the token row of the XSD type where the table has one, else the carrier's"""
        return xsd if xsd in self.tok else carrier

    def leaf_for(self, carrier_obs, target_exp, plan, xsd=None):
        """literal for a leaf: the schema decides the lexical form, the observed carrier how it is written down"""
        carrier_exp = target_exp["rust"] if target_exp and target_exp.get("k") == "builtin" else carrier_obs
        tok = {"min": "lo", "max": "hi", "mix": "esc"}[plan]
        key = self.tok_key(xsd, carrier_exp)
        if key != carrier_exp and carrier_exp == carrier_obs:
            return self.tok[key][tok]["lit"]
        if key != carrier_exp and carrier_obs == "String":
            return rs_str(self.tok[key][tok]["text"]) + ".to_string()"
        if carrier_exp == carrier_obs or carrier_exp not in self.tok:
            return self.leaf(carrier_obs, plan)
        if carrier_obs == "String":
            return rs_str(self.tok[carrier_exp][tok]["text"]) + ".to_string()"
        return self.leaf(carrier_obs, plan)

    def value(self, mod, st, plan, exp=None, depth=0, violate=None, force=None):
        """value of an observed struct under a plan; `exp` = the expected struct (schema) it stands for"""
        if depth > 6:
            return "Default::default()"
        if exp is None:
            exp = self.exp_for_obs(st)
        fl = []
        for oi, f in enumerate(st["fields"], 1):
            fy = f.get("y") or {}
            xml = fy.get("rename", f["name"])
            is_attr = bool(fy.get("attribute"))
            ef, i = None, oi
            if exp and exp.get("kind") != "simple":
                for k, e in enumerate(exp["fields"], 1):
                    if e["xml"] == xml and bool(e["attr"]) == is_attr:
                        ef, i = e, k
                        break
            tgt = ef["target"] if ef else (exp.get("base") if exp and exp.get("kind") == "simple" else None)
            r = self.o.resolve(mod, f.get("seg", []))
            # a restricted simple type: the leaf must satisfy its (effective) facets - or break them on purpose
            facet_lit = None
            if force is not None and exp and exp.get("kind") == "simple" and r is not None and r[0] == "builtin":
                # the value of a derived simple type, written into the carrier of its (ultimate) base
                facet_lit = (rs_str(force) + ".to_string()") if r[1] == "String" else force
            elif exp and exp.get("kind") == "simple" and exp.get("facets") and r is not None and r[0] == "builtin":
                base = exp.get("base") or {}
                root_rust = base.get("rust") if base.get("k") == "builtin" else self.base_rust(base)
                want_valid = not (violate is not None and violate(exp))
                # the value inside / outside the facets is the specification's choice (Schema!ValidText / InvalidText)
                txt = exp.get("valid") if want_valid else (self.invalid_choice or exp.get("invalid"))
                if txt is not None and txt != "?":
                    facet_lit = (rs_str(txt) + ".to_string()") if r[1] == "String" else txt
            if facet_lit is not None:
                inner = facet_lit
            elif r is None:
                inner = "Default::default()"
            elif r[0] == "builtin":
                inner = self.leaf_for(r[1], tgt, plan, (ef or {}).get("xsd") or ((exp.get("base") or {}).get("xsd") if exp and exp.get("kind") == "simple" else None))
            else:
                child_exp = self.exp_struct(tgt["ns"], tgt["xml"]) if tgt and tgt.get("k") == "struct" else None
                sub_force = force
                if sub_force is None and exp and exp.get("kind") == "simple" and exp.get("facets"):
                    want_valid = not (violate is not None and violate(exp))
                    txt = exp.get("valid") if want_valid else (self.invalid_choice or exp.get("invalid"))
                    sub_force = txt if txt not in (None, "?") else None
                inner = self.value(r[1], r[2], plan, child_exp, depth + 1, violate, sub_force)
            w = f["w"]
            if w == "Bare":
                e = inner
            elif w == "Option":
                e = f"Some({inner})" if self.present(plan, i) else "None"
            else:
                k = 3 if plan == "max" else (1 if self.present(plan, i) else 0)
                e = "vec![" + ", ".join([inner] * k) + "]"
            fl.append(f"{f['id']}: {e}")
        return f"{path_of(mod, st['name'])} {{ {', '.join(fl)} }}"

    # ---- reference structs: written from the EXPECTED struct table alone (never from zeep's output); the identical
    #      read / round-trip check on them tells what yaserde itself cannot carry (C04's exclusion rule)
    def ref_name(self, ns_id, pascal):
        return f"{pascal}_{re.sub('[^A-Za-z0-9]', '', ns_id)}"

    def reference_module(self):
        nss = []
        for e in self.c["expect"]:
            if e["ns"] not in nss:
                nss.append(e["ns"])
            for f in e["fields"]:
                if f["ns"] not in ("unqualified", "?") and f["ns"] not in nss:
                    nss.append(f["ns"])
        pref = {ns: f"r{i}" for i, ns in enumerate(nss)}
        nsmap = ", ".join(f'"{p}" = {rs_str(self.uri(ns))}' for ns, p in pref.items())
        out = ["#![allow(warnings)]", "use std::io::{Read, Write};", "use yaserde_derive::{YaDeserialize, YaSerialize};", ""]
        arms, fixes = [], []
        for e in self.c["expect"]:
            name = self.ref_name(e["ns"], e["pascal"])
            out.append("#[derive(Debug, Default, YaSerialize, YaDeserialize)]")
            out.append(f'#[yaserde(prefix = "{pref[e["ns"]]}", namespaces = {{{nsmap}}}, rename = {rs_str(e["xml"])})]')
            out.append(f"pub struct {name} {{")
            if e["kind"] == "simple":
                out.append("    #[yaserde(text = true)]\n    pub value: String,")
            else:
                for f in e["fields"]:
                    t = f["target"]
                    if t["k"] == "builtin":
                        # an independent reader picks a carrier that holds the type's values: i64 for the unbounded integers
                        ty = "i64" if f.get("xsd") in ("integer", "nonNegativeInteger", "positiveInteger", "nonPositiveInteger", "negativeInteger") else t["rust"]
                    elif t["k"] == "struct":
                        ty = self.ref_name(t["ns"], t["pascal"])
                    else:
                        ty = "String"
                    ty = {"Bare": ty, "Option": f"Option<{ty}>", "Vec": f"Vec<{ty}>"}[f["w"]]
                    fid = "f_" + re.sub("[^A-Za-z0-9_]", "_", f["snake"])
                    if f["attr"]:
                        out.append(f'    #[yaserde(attribute = true, rename = {rs_str(f["xml"])})]')
                    else:
                        out.append(f'    #[yaserde(prefix = "{pref.get(f["ns"], "r0")}", rename = {rs_str(f["xml"])})]')
                    out.append(f"    pub {fid}: {ty},")
            out.append("}")
            rid = self.root_id(e["ns"], e["xml"])
            arms.append(f"        {rs_str(rid)} => Some(de_one::<{name}>(xml)),")
            for plan in ("min", "max", "mix"):
                fixes.append(f"        ({rs_str(rid)}, \"{plan}\") => Some(fix_one(&{self.ref_value(e, plan)})),")
        out.append("""fn de_one<T: yaserde::YaDeserialize + yaserde::YaSerialize + std::fmt::Debug>(xml: &str) -> bool {
    match yaserde::de::from_str::<T>(xml) {
        Ok(v) => yaserde::ser::to_string(&v).is_ok(),
        Err(_) => false,
    }
}
fn fix_one<T: yaserde::YaDeserialize + yaserde::YaSerialize>(v: &T) -> bool {
    match yaserde::ser::to_string(v) {
        Ok(x) => match yaserde::de::from_str::<T>(&x) { Ok(v2) => yaserde::ser::to_string(&v2).map_or(false, |x2| x2 == x), Err(_) => false },
        Err(_) => false,
    }
}
pub fn de(root: &str, xml: &str) -> Option<bool> {
    match root {
""" + "\n".join(arms) + """
        _ => None,
    }
}
pub fn fix(root: &str, plan: &str) -> Option<bool> {
    match (root, plan) {
""" + "\n".join(fixes) + """
        _ => None,
    }
}
""")
        return "\n".join(out)

    def ref_value(self, e, plan, depth=0):
        name = self.ref_name(e["ns"], e["pascal"])
        tok = {"min": "lo", "max": "hi", "mix": "esc"}[plan]
        if depth > 6:
            return f"{name}::default()"
        if e["kind"] == "simple":
            b = e.get("base") or {}
            if e.get("facets") and e.get("valid") not in (None, "?"):
                return f"{name} {{ value: {rs_str(e['valid'])}.to_string() }}"
            if b.get("k") == "builtin":
                return f"{name} {{ value: {rs_str(self.tok[self.tok_key(b.get('xsd'), b['rust'])][tok]['text'])}.to_string() }}"
            if b.get("k") == "struct":
                inner = self.exp_struct(b["ns"], b["xml"])
                if inner and inner["kind"] == "simple":
                    v = self.ref_value(inner, plan, depth + 1)
                    m = re.search(r"value: (.*) \}$", v)
                    return f"{name} {{ value: {m.group(1) if m else 'String::new()'} }}"
            return f"{name}::default()"
        fl = []
        for i, f in enumerate(e["fields"], 1):
            t = f["target"]
            if t["k"] == "builtin":
                inner = self.tok[self.tok_key(f.get("xsd"), t["rust"])][tok]["lit"]
                if f.get("xsd") in ("integer", "nonNegativeInteger", "positiveInteger", "nonPositiveInteger", "negativeInteger"):
                    inner = f"({inner}) as i64"
            elif t["k"] == "struct":
                ce = self.exp_struct(t["ns"], t["xml"])
                inner = self.ref_value(ce, plan, depth + 1) if ce else "Default::default()"
            else:
                inner = "Default::default()"
            w = f["w"]
            if w == "Bare":
                x = inner
            elif w == "Option":
                x = f"Some({inner})" if self.present(plan, i) else "None"
            else:
                k = 3 if plan == "max" else (1 if self.present(plan, i) else 0)
                x = "vec![" + ", ".join([inner] * k) + "]"
            fl.append(f"f_{re.sub('[^A-Za-z0-9_]', '_', f['snake'])}: {x}")
        return f"{name} {{ {', '.join(fl)} }}"

    def base_rust(self, base):
        for _ in range(5):
            if not base or base.get("k") != "struct":
                return base.get("rust") if base else None
            e = self.exp_struct(base["ns"], base["xml"])
            base = e.get("base") if e else None
        return None

    def root_id(self, ns, xml):
        return f"{ns}|{xml}"

    def driver(self):
        cid = self.c["id"]
        out = ["#![allow(warnings)]", f"use crate::case_{cid} as g;", "use crate::support::*;",
               "use g::restrictions::CheckRestrictions;", "use std::rc::Rc;", ""]
        out.append(self.typed_literals())
        body = ["    typed();"]
        de_arms = []
        for s in self.c["expect"]:
            m, st = self.o.find_struct(self.uri(s["ns"]), s["xml"])
            rid = self.root_id(s["ns"], s["xml"])
            if st is None:
                body.append(f"    ev.push({cid}, \"no_struct\", &[(\"root\", s({rs_str(rid)}))]);")
                continue
            ty = path_of(m, st["name"])
            for plan in ("min", "max", "mix"):
                body.append("    {")
                body.append(f"        let v = {self.value(m, st, plan)};")
                body.append(f"        let x = yaserde::ser::to_string(&v);")
                body.append(f"        let chk = v.check_restrictions(None);")
                body.append(f"        let (ok, xml) = match &x {{ Ok(t) => (true, t.clone()), Err(e) => (false, e.clone()) }};")
                body.append(f"        ev.push({cid}, \"ser\", &[(\"root\", s({rs_str(rid)})), (\"plan\", s(\"{plan}\")), (\"ok\", b(ok)), (\"xml\", s(&xml)), (\"check_ok\", b(chk.is_ok()))]);")
                body.append(f"        if let Some(rok) = crate::ref_{cid}::fix({rs_str(rid)}, \"{plan}\") {{ ev.push({cid}, \"fix_ref\", &[(\"root\", s({rs_str(rid)})), (\"plan\", s(\"{plan}\")), (\"ok\", b(rok))]); }}")
                body.append(f"        if let Ok(t) = &x {{")
                body.append(f"            match yaserde::de::from_str::<{ty}>(t) {{")
                body.append(f"                Ok(v2) => {{ let x2 = yaserde::ser::to_string(&v2).unwrap_or_else(|e| format!(\"ERR:{{e}}\")); ev.push({cid}, \"fix\", &[(\"root\", s({rs_str(rid)})), (\"plan\", s(\"{plan}\")), (\"ok\", b(true)), (\"xml\", s(&x2)), (\"same_text\", b(&x2 == t))]); }}")
                body.append(f"                Err(e) => ev.push({cid}, \"fix\", &[(\"root\", s({rs_str(rid)})), (\"plan\", s(\"{plan}\")), (\"ok\", b(false)), (\"xml\", s(&e)), (\"same_text\", b(false))]),")
                body.append("            }")
                body.append("        }")
                body.append("    }")
            base_val = self.value(m, st, "max")
            for e in self.c["expect"]:
                for bad in (e.get("invalids") or []):
                    self.invalid_choice = bad
                    one = self.value(m, st, "max", violate=lambda x, e=e: x is e)
                    self.invalid_choice = None
                    if one != base_val:
                        body.append("    {")
                        body.append(f"        let v = {one};")
                        body.append(f"        let chk = v.check_restrictions(None);")
                        body.append(f"        ev.push({cid}, \"env_check\", &[(\"op\", s({rs_str(rid + ':' + e['xml'] + '=' + bad)})), (\"violating\", b(true)), (\"check_ok\", b(chk.is_ok()))]);")
                        body.append("    }")
            de_arms.append(f"        {rs_str(rid)} => Some(de_one::<{ty}>(xml)),")
        body.append("    extra(ev);")
        out.append("pub fn run(ev: &mut Events) {\n" + "\n".join(body) + "\n}\n")
        out.append("""fn de_one<T: yaserde::YaDeserialize + yaserde::YaSerialize + std::fmt::Debug>(xml: &str) -> (bool, String, String) {
    match yaserde::de::from_str::<T>(xml) {
        Ok(v) => (true, format!("{v:?}"), yaserde::ser::to_string(&v).unwrap_or_else(|e| format!("ERR:{e}"))),
        Err(e) => (false, e, String::new()),
    }
}
pub fn de(root: &str, xml: &str) -> Option<(bool, String, String)> {
    match root {
""" + "\n".join(de_arms) + """
        _ => None,
    }
}
""")
        return "\n".join(out)


def cargo(args, cwd, timeout=3600):
    env = dict(os.environ, CARGO_NET_OFFLINE="true")
    p = subprocess.run(["cargo"] + args, cwd=cwd, env=env, stdout=subprocess.PIPE, stderr=subprocess.PIPE, timeout=timeout)
    return p.returncode, p.stdout.decode("utf-8", "replace"), p.stderr.decode("utf-8", "replace")


def errors_by_file(json_out):
    """cargo --message-format=json output -> {relative file: [first lines of rendered errors]}"""
    res = {}
    for line in json_out.splitlines():
        if not line.startswith("{"):
            continue
        try:
            m = json.loads(line)
        except json.JSONDecodeError:
            continue
        if m.get("reason") != "compiler-message":
            continue
        msg = m["message"]
        if msg.get("level") != "error":
            continue
        files = {sp["file_name"] for sp in msg.get("spans", []) if sp.get("is_primary")} or {sp["file_name"] for sp in msg.get("spans", [])} or {"?"}
        for f in files:
            res.setdefault(f, []).append((msg.get("code") or {}).get("code", "") + " " + msg.get("message", "")[:200])
    return res


class Pipeline:
    def __init__(self, name):
        self.dir = os.path.join(z.BUILD, "cr", name)
        self.crate = os.path.join(self.dir, "crate")

    def write_crate_base(self):
        os.makedirs(os.path.join(self.crate, "src"), exist_ok=True)
        os.makedirs(os.path.join(self.crate, "gen"), exist_ok=True)
        os.makedirs(os.path.join(self.crate, ".cargo"), exist_ok=True)
        open(os.path.join(self.crate, "Cargo.toml"), "w").write(CARGO_TOML)
        open(os.path.join(self.crate, ".cargo", "config.toml"), "w").write(
            "[net]\noffline = true\n[build]\ntarget-dir = \"%s\"\n" % os.path.join(z.BUILD, "target"))
        shutil.copy(os.path.join(z.VERIF, "harness", "Cargo.lock"), os.path.join(self.crate, "Cargo.lock"))
        open(os.path.join(self.crate, "src", "support.rs"), "w").write(SUPPORT_RS)

    def write_main(self, case_ids, drv_ids, extra_mods=""):
        lines = ["#![allow(warnings)]", "mod support;"]
        for i in case_ids:
            lines.append(f"#[path = \"../gen/case_{i}.rs\"] pub mod case_{i};")
        for i in drv_ids:
            lines.append(f"mod ref_{i};")
            lines.append(f"mod drv_{i};")
        lines.append(extra_mods)
        lines.append("fn main() {")
        lines.append("    let mut ev = support::Events::new();")
        lines.append("    let args: Vec<String> = std::env::args().collect();")
        lines.append("    let only: Option<u64> = args.get(1).and_then(|a| a.parse().ok());")
        for i in drv_ids:
            lines.append(f"    if only.is_none() || only == Some({i}) {{ let r = std::panic::catch_unwind(|| {{ let mut e = support::Events::new(); drv_{i}::run(&mut e); }}); if r.is_err() {{ ev.push({i}, \"driver_panic\", &[]); }} }}")
        # instance documents are read at run time
        lines.append("    if let Ok(path) = std::env::var(\"ZV_INSTANCES\") {")
        lines.append("        if let Ok(text) = std::fs::read_to_string(&path) {")
        lines.append("            for line in text.lines() {")
        lines.append("                // case \\t root \\t plan \\t style \\t xml(escaped \\n as \\\\n)")
        lines.append("                let parts: Vec<&str> = line.splitn(5, '\\t').collect();")
        lines.append("                if parts.len() < 5 { continue; }")
        lines.append("                let case: u64 = parts[0].parse().unwrap_or(0);")
        lines.append("                if only.is_some() && only != Some(case) { continue; }")
        lines.append("                let xml = parts[4].replace(\"\\\\n\", \"\\n\");")
        lines.append("                let rr: Option<bool> = match case {")
        for i in drv_ids:
            lines.append(f"                    {i} => ref_{i}::de(parts[1], &xml),")
        lines.append("                    _ => None,")
        lines.append("                };")
        lines.append("                if let Some(rok) = rr { ev.push(case, \"de_ref\", &[(\"root\", support::s(parts[1])), (\"plan\", support::s(parts[2])), (\"style\", support::s(parts[3])), (\"ok\", support::b(rok))]); }")
        lines.append("                let r: Option<(bool, String, String)> = match case {")
        for i in drv_ids:
            lines.append(f"                    {i} => drv_{i}::de(parts[1], &xml),")
        lines.append("                    _ => None,")
        lines.append("                };")
        lines.append("                if let Some((ok, dbg, reser)) = r {")
        lines.append("                    ev.push(case, \"de\", &[(\"root\", support::s(parts[1])), (\"plan\", support::s(parts[2])), (\"style\", support::s(parts[3])), (\"ok\", support::b(ok)), (\"debug\", support::s(&dbg)), (\"xml\", support::s(&reser))]);")
        lines.append("                }")
        lines.append("            }")
        lines.append("        }")
        lines.append("    }")
        lines.append("}")
        open(os.path.join(self.crate, "src", "main.rs"), "w").write("\n".join(lines) + "\n")


# ---------------------------------------------------------------------------- instance documents

def xml_text(t):
    return t.replace("&", "&amp;").replace("<", "&lt;").replace(">", "&gt;")


def xml_attr(t):
    return xml_text(t).replace('"', "&quot;")


def render_instance(tree, uris, style, gen_prefix):
    """expected infoset -> XML text; style: generated prefixes | renamed prefixes | default namespace for the root's"""
    nss = []

    unq = []

    def collect(n):
        if n["ns"] == "unqualified":
            unq.append(n)
        elif n["ns"] not in nss:
            nss.append(n["ns"])
        for k in n["kids"]:
            collect(k)
    collect(tree)
    prefix = {}
    for i, ns in enumerate(nss):
        u = uris.get(ns, ns)
        if style == "generated":
            prefix[ns] = gen_prefix.get(u, f"g{i}")
        elif style == "renamed":
            prefix[ns] = f"zz{i}"
        else:
            # a default namespace would capture the unqualified local elements below it: with such elements in the
            # document the root's namespace gets a prefix as well
            prefix[ns] = "" if (ns == tree["ns"] and not unq) else f"d{i}"
    decl = "".join((f' xmlns:{p}="{xml_attr(uris.get(ns, ns))}"' if p else f' xmlns="{xml_attr(uris.get(ns, ns))}"') for ns, p in prefix.items())

    def q(n):
        if n["ns"] == "unqualified":
            return n["local"]
        p = prefix[n["ns"]]
        return f"{p}:{n['local']}" if p else n["local"]

    def node(n, top=False):
        attrs = "".join(f' {a["name"]}="{xml_attr(a["text"])}"' for a in sorted(n["attrs"], key=lambda a: a["name"]))
        head = f"<{q(n)}{decl if top else ''}{attrs}>"
        if n["kids"]:
            inner = "".join(node(k) for k in n["kids"])
        else:
            inner = "" if n["text"] in ("-", "?") else xml_text(n["text"])
        return f"{head}{inner}</{q(n)}>"
    return '<?xml version="1.0" encoding="UTF-8"?>' + node(tree, True)


# ---------------------------------------------------------------------------- orchestration

def spec_hash():
    h = hashlib.sha256()
    for root in (os.path.join(z.VERIF, "spec"), os.path.join(z.VERIF, "lib"), os.path.join(z.VERIF, "harness", "src")):
        for d, _, files in sorted(os.walk(root)):
            for f in sorted(files):
                if f.endswith((".tla", ".py", ".rs")):
                    h.update(open(os.path.join(d, f), "rb").read())
    return h.hexdigest()[:16]


def run_pipeline(tier, mc_cases_fn):
    """returns (vocab, cases, per-case event lists, stats); cached per (repo tree, framework, tier)"""
    key = f"{z.tree_hash()}_{spec_hash()}_{tier}"
    cdir = os.path.join(z.BUILD, "cr", "cache")
    os.makedirs(cdir, exist_ok=True)
    cpath = os.path.join(cdir, key + ".json")
    if os.path.exists(cpath) and not os.environ.get("ZV_NOCACHE"):
        d = json.load(open(cpath))
        d["stats"]["cache_hit"] = True
        return d["vocab"], d["cases"], d["events"], d["stats"]
    t0 = time.time()
    vocab, cases, mc_stats = mc_cases_fn()
    pipe = Pipeline(tier)
    shutil.rmtree(pipe.dir, ignore_errors=True)
    pipe.write_crate_base()
    # (1) generate with the real code, in-process, keeping the emitted files
    dump = os.path.join(pipe.dir, "dump")
    traces, crashed = z.run_harness(vocab, cases, "CR_" + tier, shards=min(8, len(cases)), dump=dump)
    gen = {}
    for t in traces:
        cur = None
        for line in open(t):
            e = json.loads(line)
            if e["ev"] == "case":
                cur = e["id"]
                gen[cur] = {"ret": None, "out": None, "write": None}
            elif e["ev"] == "ret" and cur is not None:
                gen[cur]["ret"] = e["outcome"]
            elif e["ev"] == "written" and cur is not None:
                gen[cur]["out"] = e.get("out")
                gen[cur]["write"] = e["outcome"]
    events = {c["id"]: [] for c in cases}
    ids = []
    for c in cases:
        g = gen.get(c["id"], {})
        src = os.path.join(dump, str(c["id"]), "out.rs")
        ok = g.get("ret") == "doc" and g.get("write") == "ok" and os.path.exists(src)
        events[c["id"]].append({"ev": "generated", "ok": ok, "read": g.get("ret") or "none", "write": g.get("write") or "none",
                                "parses": bool((g.get("out") or {}).get("parses"))})
        if ok:
            shutil.copy(src, os.path.join(pipe.crate, "gen", f"case_{c['id']}.rs"))
            ids.append(c["id"])
    # (2) phase A: the generated files alone
    remaining = list(ids)
    compile_errors = {}
    for _ in range(3):
        pipe.write_main(remaining, [])
        rc, out, err = cargo(["check", "--offline", "--message-format=json", "-q"], pipe.crate)
        eb = errors_by_file(out)
        if rc == 0:
            break
        bad = set()
        for f, msgs in eb.items():
            m = re.search(r"case_(\d+)\.rs", f)
            if m:
                bad.add(int(m.group(1)))
                compile_errors.setdefault(int(m.group(1)), []).extend(msgs)
        if not bad:
            raise z.ToolError("driver crate does not build and no generated file is to blame:\n" + err[-2000:] + json.dumps(eb)[:2000])
        remaining = [i for i in remaining if i not in bad]
    for i in ids:
        events[i].append({"ev": "compiled", "ok": i in remaining, "errors": compile_errors.get(i, [])[:5]})
    # (3) synthesise the drivers for the files that compile, phase B
    by_id = {c["id"]: c for c in cases}
    drv = []
    for i in remaining:
        obs = Obs(gen[i]["out"])
        src = Synth(vocab, by_id[i], obs).driver()
        src += synth_extra(vocab, by_id[i], obs)
        open(os.path.join(pipe.crate, "src", f"drv_{i}.rs"), "w").write(src)
        open(os.path.join(pipe.crate, "src", f"ref_{i}.rs"), "w").write(Synth(vocab, by_id[i], obs).reference_module())
        drv.append(i)
    drv_errors = {}
    for _ in range(4):
        pipe.write_main(remaining, drv)
        rc, out, err = cargo(["check", "--offline", "--message-format=json", "-q"], pipe.crate)
        if rc == 0:
            break
        eb = errors_by_file(out)
        bad = set()
        for f, msgs in eb.items():
            m = re.search(r"drv_(\d+)\.rs", f)
            if m:
                bad.add(int(m.group(1)))
                drv_errors.setdefault(int(m.group(1)), []).extend(msgs)
        if not bad:
            raise z.ToolError("driver crate does not build and no driver module is to blame:\n" + err[-2000:] + json.dumps(eb)[:2000])
        drv = [i for i in drv if i not in bad]
    for i in remaining:
        events[i].append({"ev": "driver_compiled", "ok": i in drv, "errors": drv_errors.get(i, [])[:6]})
    # (4) build and run
    stats = {"cases": len(cases), "generated_ok": len(ids), "compiled": len(remaining), "drivers": len(drv), "mc": mc_stats}
    if drv:
        rc, out, err = cargo(["build", "--offline", "-q"], pipe.crate)
        if rc != 0:
            raise z.ToolError("driver build failed after check succeeded:\n" + err[-2000:])
        inst = os.path.join(pipe.dir, "instances.tsv")
        with open(inst, "w") as f:
            for i in drv:
                c = by_id[i]
                obs = Obs(gen[i]["out"])
                genp = {}
                for (m, n), s in obs.structs.items():
                    y = s.get("y") or {}
                    for a, u in y.get("namespaces", []) or []:
                        genp.setdefault(u, a)
                uris = {k: r["uri"] for k, r in vocab.get("uris", {}).items()}
                for inf in c.get("infosets", []):
                    for style in ("generated", "renamed", "default"):
                        xml = render_instance(inf["tree"], uris, style, genp)
                        f.write(f"{i}\t{inf['ns']}|{inf['n']}\t{inf['plan']}\t{style}\t{xml.replace(chr(10), chr(92) + 'n')}\n")
        binp = os.path.join(z.BUILD, "target", "debug", "zvdrv")
        env = dict(os.environ, ZV_INSTANCES=inst)
        raw = os.path.join(pipe.dir, "raw_events.ndjson")
        with open(raw, "w") as f:
            for i in drv:
                try:
                    p = subprocess.run([binp, str(i)], stdout=subprocess.PIPE, stderr=subprocess.PIPE, env=env, timeout=600)
                    f.write(p.stdout.decode("utf-8", "replace"))
                    if p.returncode != 0:
                        f.write(json.dumps({"ev": "driver_exit", "case": i, "rc": p.returncode, "stderr": p.stderr.decode("utf-8", "replace")[-300:]}) + "\n")
                except subprocess.TimeoutExpired:
                    f.write(json.dumps({"ev": "driver_exit", "case": i, "rc": -1, "stderr": "timeout"}) + "\n")
        conv = os.path.join(pipe.dir, "events.ndjson")
        subprocess.run([z.ZV, "infoset", raw, conv], check=True)
        for line in open(conv):
            e = json.loads(line)
            cid = e.pop("case", None)
            e.pop("xml", None) if "info" in e else None
            if cid in events:
                events[cid].append(e)
    stats["xsd_validator"] = xsd_validate(pipe, dump, vocab, by_id, drv, events) if drv else "no drivers"
    stats["wall_s"] = round(time.time() - t0, 1)
    stats["cache_hit"] = False
    ev2 = {str(k): v for k, v in events.items()}
    json.dump({"vocab": vocab, "cases": cases, "events": ev2, "stats": stats}, open(cpath, "w"))
    return vocab, cases, ev2, stats


def compile_only(name, sources):
    """sources = [(label, vocab, cases)]: generate every case with the real code and compile all emitted files as modules of
    one crate (phase A of the pipeline only).  Returns [(label, vocab, cases, events)], events per case id."""
    pipe = Pipeline(name)
    shutil.rmtree(pipe.dir, ignore_errors=True)
    pipe.write_crate_base()
    out, mods = [], {}
    for label, vocab, cases in sources:
        dump = os.path.join(pipe.dir, "dump_" + label)
        traces, _ = z.run_harness(vocab, cases, f"{name}_{label}", shards=min(8, max(1, len(cases))), dump=dump)
        gen = {}
        for t in traces:
            cur = None
            for line in open(t):
                e = json.loads(line)
                if e["ev"] == "case":
                    cur = e["id"]
                    gen[cur] = {"ret": None, "write": None}
                elif e["ev"] == "ret" and cur is not None:
                    gen[cur]["ret"] = e["outcome"]
                elif e["ev"] == "written" and cur is not None:
                    gen[cur]["write"] = e["outcome"]
        events = {c["id"]: [] for c in cases}
        for c in cases:
            g = gen.get(c["id"], {})
            src = os.path.join(dump, str(c["id"]), "out.rs")
            ok = g.get("ret") == "doc" and g.get("write") == "ok" and os.path.exists(src)
            events[c["id"]].append({"ev": "generated", "ok": ok, "read": g.get("ret") or "none", "write": g.get("write") or "none"})
            if ok:
                mod = f"{label}_{c['id']}"
                shutil.copy(src, os.path.join(pipe.crate, "gen", f"case_{mod}.rs"))
                mods[mod] = (label, c["id"])
        out.append((label, vocab, cases, events))
    remaining = sorted(mods)
    errs = {}
    for _ in range(4):
        pipe.write_main(remaining, [])
        rc, o, err = cargo(["check", "--offline", "--message-format=json", "-q"], pipe.crate)
        if rc == 0:
            break
        eb = errors_by_file(o)
        bad = set()
        for f, msgs in eb.items():
            m = re.search(r"case_([A-Za-z0-9]+_\d+)\.rs", f)
            if m:
                bad.add(m.group(1))
                errs.setdefault(m.group(1), []).extend(msgs)
        if not bad:
            raise z.ToolError("compile-only crate does not build and no generated file is to blame:\n" + err[-2000:])
        remaining = [m for m in remaining if m not in bad]
    by_label = {lab: ev for lab, _, _, ev in out}
    for mod, (label, cid) in mods.items():
        by_label[label][cid].append({"ev": "compiled", "ok": mod in remaining, "errors": errs.get(mod, [])[:5]})
    return out


def find_xmllint():
    for c in (shutil.which("xmllint"), "/root/miniconda/bin/xmllint", "/usr/bin/xmllint"):
        if c and os.path.exists(c):
            return c
    return None


def xsd_validate(pipe, dump, vocab, by_id, drv, events):
    """An independent XSD implementation (libxml2's xmllint, when the image has it) judges every serialised document of
    the schema-only cases.  The schema files are the concrete files the generator read, plus one global element
    declaration per named type (a type has no root element of its own; the struct serialises under the type's name)."""
    tool = find_xmllint()
    if tool is None:
        return "absent"
    names = vocab.get("names", {})
    uris = {k: r["uri"] for k, r in vocab.get("uris", {}).items()}
    raw = os.path.join(pipe.dir, "raw_events.ndjson")
    sers = {}
    for line in open(raw):
        try:
            e = json.loads(line)
        except ValueError:
            continue
        if e.get("ev") == "ser" and e.get("ok") and "xml" in e:
            sers.setdefault(e["case"], []).append(e)
    n = 0
    for i in drv:
        c = by_id[i]
        if c.get("kind") != "types" or i not in sers:
            continue
        vdir = os.path.join(pipe.dir, "xsdval", str(i))
        shutil.rmtree(vdir, ignore_errors=True)
        os.makedirs(vdir)
        for f in c["files"]:
            src = os.path.join(dump, str(i), f["name"])
            if not os.path.exists(src):
                continue
            text = open(src, encoding="utf-8").read()
            have = {names.get(it["n"], {}).get("xml", it["n"]) for it in f["items"] if it.get("k") == "element"}
            extra = []
            for it in f["items"]:
                if it.get("k") in ("complex", "simple"):
                    xml = names.get(it["n"], {}).get("xml", it["n"])
                    if xml not in have:
                        extra.append(f'  <xs:element name="{xml_attr(xml)}" type="zvself:{xml_attr(xml)}" xmlns:zvself="{xml_attr(uris.get(f["tns"], f["tns"]))}"/>\n')
            k = text.rfind("</xs:schema>")
            open(os.path.join(vdir, f["name"]), "w", encoding="utf-8").write(text[:k] + "".join(extra) + text[k:])
        # a driver schema that imports every file of the case, so that a root of any namespace has its declaration
        drvxsd = os.path.join(vdir, "zv_all.xsd")
        with open(drvxsd, "w", encoding="utf-8") as g:
            g.write('<?xml version="1.0" encoding="UTF-8"?>\n<xs:schema xmlns:xs="http://www.w3.org/2001/XMLSchema" targetNamespace="http://zv.test/xsdval/driver">\n')
            for f in c["files"]:
                g.write(f'  <xs:import namespace="{xml_attr(uris.get(f["tns"], f["tns"]))}" schemaLocation="{xml_attr(f["name"])}"/>\n')
            g.write("</xs:schema>\n")
        for k, e in enumerate(sers[i]):
            inst = os.path.join(vdir, f"inst_{k}.xml")
            open(inst, "w", encoding="utf-8").write(e["xml"])
            try:
                p = subprocess.run([tool, "--noout", "--nonet", "--schema", drvxsd, inst], stdout=subprocess.PIPE, stderr=subprocess.PIPE, timeout=60)
                msg = p.stderr.decode("utf-8", "replace")
                if p.returncode not in (0, 3, 4):
                    # 3/4 = validation error; anything else (schema does not compile, I/O) is a tool problem, not a verdict
                    events[i].append({"ev": "xsd_tool", "root": e["root"], "plan": e["plan"], "rc": p.returncode, "msg": msg[:300]})
                    continue
                first = next((ln for ln in msg.splitlines() if "error" in ln), msg[:200])
                first = re.sub(r"^.*?inst_\d+\.xml:\d+: ", "", first)
                events[i].append({"ev": "xsd_valid", "root": e["root"], "plan": e["plan"], "valid": p.returncode == 0, "msg": first[:240]})
                n += 1
            except subprocess.TimeoutExpired:
                events[i].append({"ev": "xsd_tool", "root": e["root"], "plan": e["plan"], "rc": -1, "msg": "timeout"})
    return f"xmllint: {n} documents"


SCENARIOS = []      # client/server scenarios printed by MC_C16 (set by the caller of run_pipeline)
SCN_LIMIT = {}      # tier -> how many scenarios ops other than the first one of a case get

FAULT_XML = ('<?xml version="1.0" encoding="UTF-8"?><soapenv:Envelope xmlns:soapenv="http://schemas.xmlsoap.org/soap/envelope/">'
             '<soapenv:Body><soapenv:Fault><faultcode>soapenv:Server</faultcode><faultstring>scripted fault</faultstring></soapenv:Fault></soapenv:Body></soapenv:Envelope>')


def synth_extra(vocab, case, obs):
    """envelopes (C05), method signatures and Send (C05, C18), client calls against the scripted server (C07, C16)"""
    if case.get("kind") != "wsdl":
        return "pub fn extra(ev: &mut Events) {}\n"
    sy = Synth(vocab, case, obs)
    cid = case["id"]
    uris = {k: r["uri"] for k, r in vocab.get("uris", {}).items()}
    svc = case.get("service", "Service")
    has_svc = any(it.get("k") == "impl" and it.get("for") == svc for it in obs.out.get("root", []))
    out = []
    body = []
    # what the file offers: methods of the service type, free functions
    methods = []
    for it in obs.out.get("root", []):
        if it.get("k") == "impl" and it.get("for") == svc:
            methods = [f["id"] for f in it.get("fns", [])]
    free = [it["id"] for it in obs.out.get("root", []) if it.get("k") == "fn"]
    body.append(f"    ev.push({cid}, \"service\", &[(\"name\", s({rs_str(svc)})), (\"present\", b({str(has_svc).lower()})), (\"methods\", {rs_str(json.dumps(methods))}.to_string()), (\"free\", {rs_str(json.dumps(free))}.to_string())]);")
    # has any input a restricted member?  (for the violating requests)
    def restricted(e):
        return bool(e.get("facets"))
    sig = []
    for k, op in enumerate(case["ops"]):
        P, fn, name = op["pascal"], op["snake"], op["n"]
        in_name, out_name = f"{P}InputEnvelope", f"{P}OutputEnvelope"
        in_st = obs.structs.get(("", in_name))
        out_st = obs.structs.get(("", out_name)) if op.get("output") and op["output"] != {"none": True} else None
        has_out = op.get("output") not in (None, {"none": True})
        if in_st is None:
            body.append(f"    ev.push({cid}, \"env\", &[(\"op\", s({rs_str(name)})), (\"dir\", s(\"input\")), (\"ok\", b(false)), (\"xml\", s(\"no struct {in_name}\"))]);")
            continue
        vin = sy.value("", in_st, "max")
        body.append("    {")
        body.append(f"        let v = {vin};")
        body.append(f"        let x = yaserde::ser::to_string(&v);")
        body.append(f"        let chk = v.check_restrictions(None);")
        body.append(f"        let (ok, xml) = match &x {{ Ok(t) => (true, t.clone()), Err(e) => (false, e.clone()) }};")
        body.append(f"        ev.push({cid}, \"env\", &[(\"op\", s({rs_str(name)})), (\"dir\", s(\"input\")), (\"ok\", b(ok)), (\"xml\", s(&xml)), (\"check_ok\", b(chk.is_ok()))]);")
        body.append("    }")
        # a request that violates a facet (only where the request has a restricted member)
        vbad = sy.value("", in_st, "max", violate=restricted)
        violating = vbad != vin
        if violating:
            body.append("    {")
            body.append(f"        let v = {vbad};")
            body.append(f"        let chk = v.check_restrictions(None);")
            body.append(f"        ev.push({cid}, \"env_check\", &[(\"op\", s({rs_str(name)})), (\"violating\", b(true)), (\"check_ok\", b(chk.is_ok()))]);")
            body.append("    }")
        # ... and one restricted type at a time: exactly the leaves of that type break their facets
        for e in case["expect"]:
            for bad in (e.get("invalids") or []):
                sy.invalid_choice = bad
                one = sy.value("", in_st, "max", violate=lambda x, e=e: x is e)
                sy.invalid_choice = None
                if one != vin:
                    body.append("    {")
                    body.append(f"        let v = {one};")
                    body.append(f"        let chk = v.check_restrictions(None);")
                    body.append(f"        ev.push({cid}, \"env_check\", &[(\"op\", s({rs_str(name + ':' + e['xml'] + '=' + bad)})), (\"violating\", b(true)), (\"check_ok\", b(chk.is_ok()))]);")
                    body.append("    }")
        reply_other = ""
        if has_out:
            env = case["envelopes"][k]["output"]["max"]
            reply_other = render_instance(env, uris, "renamed", {})
            if out_st is not None:
                vout = sy.value("", out_st, "max")
                body.append("    {")
                body.append(f"        let v = {vout};")
                body.append(f"        let x = yaserde::ser::to_string(&v);")
                body.append(f"        let (ok, xml) = match &x {{ Ok(t) => (true, t.clone()), Err(e) => (false, e.clone()) }};")
                body.append(f"        ev.push({cid}, \"env\", &[(\"op\", s({rs_str(name)})), (\"dir\", s(\"output\")), (\"ok\", b(ok)), (\"xml\", s(&xml))]);")
                body.append(f"        match yaserde::de::from_str::<g::{out_name}>({rs_str(reply_other)}) {{")
                body.append(f"            Ok(v2) => {{ let x2 = yaserde::ser::to_string(&v2).unwrap_or_else(|e| format!(\"ERR:{{e}}\")); ev.push({cid}, \"env_de\", &[(\"op\", s({rs_str(name)})), (\"ok\", b(true)), (\"xml\", s(&x2))]); }}")
                body.append(f"            Err(e) => ev.push({cid}, \"env_de\", &[(\"op\", s({rs_str(name)})), (\"ok\", b(false)), (\"xml\", s(&e))]),")
                body.append("        }")
                body.append("    }")
            else:
                body.append(f"    ev.push({cid}, \"env\", &[(\"op\", s({rs_str(name)})), (\"dir\", s(\"output\")), (\"ok\", b(false)), (\"xml\", s(\"no struct {out_name}\"))]);")
        # compile-time: the method exists with the expected name, argument and future output; the future is Send
        ret = f"g::error::SoapResult<g::{out_name}>" if has_out else "g::error::SoapResult<()>"
        sig.append(f"fn _sig_{k}(svc: &g::{svc}, req: g::{in_name}) {{")
        sig.append(f"    let fut = svc.{fn}(req);")
        sig.append(f"    fn is_fut<F: std::future::Future<Output = {ret}>>(_: &F) {{}}")
        sig.append(f"    is_fut(&fut);")
        sig.append(f"    assert_send(&fut);")
        sig.append("}")
        if op.get("action"):
            sig.append(f"fn _free_{k}(req: g::{in_name}) {{")
            sig.append(f"    let fut = g::{fn}(req, None);")
            sig.append(f"    fn is_fut<F: std::future::Future<Output = {ret}>>(_: &F) {{}}")
            sig.append(f"    is_fut(&fut);")
            sig.append(f"    assert_send(&fut);")
            sig.append("}")
        sig.append(f"fn _auto_{k}() {{ assert_send_sync::<g::{in_name}>(); " + (f"assert_send_sync::<g::{out_name}>(); " if has_out else "") + "}")
        # run-time: scripted calls
        scns = SCENARIOS if k == 0 else SCENARIOS[:: max(1, len(SCENARIOS) // 12)]
        body.append("    {")
        body.append("        let rt = tokio::runtime::Builder::new_multi_thread().worker_threads(2).enable_all().build().unwrap();")
        if has_out and out_st is not None:
            body.append(f"        let reply_exact: String = yaserde::ser::to_string(&{sy.value('', out_st, 'max')}).unwrap_or_default();")
        else:
            body.append("        let reply_exact: String = String::new();")
        body.append(f"        let reply_other: String = {rs_str(reply_other)}.to_string();")
        body.append("        let scns: &[(usize, bool, &str, &str, u16, &str)] = &[")
        for i, sc in enumerate(scns):
            if sc["violates"] and not violating:
                continue
            scr = sc["script"]
            if scr["k"] == "reply" and scr["status"] == 204 and scr["body"] != "empty":
                continue
            if not has_out and scr["k"] == "reply" and scr["body"] in ("exact", "other_prefixes"):
                continue
            body.append(f"            ({i}, {str(sc['violates']).lower()}, \"{sc['creds']}\", \"{scr['k']}\", {scr.get('status', 0)}, \"{scr.get('body', '-')}\"),")
        body.append("        ];")
        body.append("        for (scn, violates, creds, kind, status, body_class) in scns.iter().cloned() {")
        body.append("            let reply = match body_class { \"exact\" => reply_exact.clone(), \"other_prefixes\" => reply_other.clone(), \"empty\" => String::new(), \"non_xml\" => \"this is not xml\".to_string(), _ => FAULT.to_string() };")
        body.append("            let (server, port) = match kind {")
        body.append("                \"refuse\" => (None, refused_port()),")
        body.append("                \"close_before\" => { let sv = Server::start(Script::CloseBeforeHeaders); let p = sv.port; (Some(sv), p) }")
        body.append("                \"close_after\" => { let sv = Server::start(Script::CloseAfterHeaders); let p = sv.port; (Some(sv), p) }")
        body.append("                \"truncate\" => { let sv = Server::start(Script::Truncate { status: 200, body: if reply_exact.is_empty() { FAULT.to_string() } else { reply_exact.clone() } }); let p = sv.port; (Some(sv), p) }")
        body.append("                \"overlong\" => { let sv = Server::start(Script::Overlong { status: 200, body: reply_exact.clone() }); let p = sv.port; (Some(sv), p) }")
        body.append("                _ => { let sv = Server::start(Script::Reply { status, body: reply.clone() }); let p = sv.port; (Some(sv), p) }")
        body.append("            };")
        body.append("            let (user, pass) = match creds { \"empty_user\" => (\"\", \"tok en-123\"), _ => (\"zv-user\", \"pa ss:w\\u{e4}rd\") };")
        body.append(f"            let mut svc = g::{svc}::new(if creds != \"none\" {{ Some((user.to_string(), pass.to_string())) }} else {{ None }});")
        body.append("            let declared = svc.location.clone();")
        body.append("            svc.location = format!(\"http://127.0.0.1:{port}/zv/items\");")
        body.append(f"            let req = if violates {{ {vbad} }} else {{ {vin} }};")
        body.append("            let sent = yaserde::ser::to_string(&req).unwrap_or_default();")
        body.append(f"            let r = rt.block_on(async move {{ tokio::spawn(async move {{ svc.{fn}(req).await }}).await }});")
        if has_out:
            body.append("            let (result, value_xml) = match r { Ok(Ok(v)) => (\"ok\", yaserde::ser::to_string(&v).unwrap_or_default()), Ok(Err(g::error::SoapError::Http(_))) => (\"err_http\", String::new()), Ok(Err(g::error::SoapError::YaserdeError(_))) => (\"err_yaserde\", String::new()), Ok(Err(g::error::SoapError::Restriction(_))) => (\"err_restriction\", String::new()), Err(_) => (\"panic\", String::new()) };")
        else:
            body.append("            let (result, value_xml) = match r { Ok(Ok(())) => (\"ok\", String::new()), Ok(Err(g::error::SoapError::Http(_))) => (\"err_http\", String::new()), Ok(Err(g::error::SoapError::YaserdeError(_))) => (\"err_yaserde\", String::new()), Ok(Err(g::error::SoapError::Restriction(_))) => (\"err_restriction\", String::new()), Err(_) => (\"panic\", String::new()) };")
        body.append("            let seen = server.as_ref().map(|sv| sv.seen()).unwrap_or_default();")
        body.append("            drop(server);")
        body.append("            let first = seen.requests.first().cloned();")
        body.append("            let method = first.as_ref().map(|r| r.0.clone()).unwrap_or_default();")
        body.append("            let path = first.as_ref().map(|r| r.1.clone()).unwrap_or_default();")
        body.append("            let auth = first.as_ref().and_then(|r| r.2.iter().find(|h| h.0 == \"authorization\").map(|h| h.1.clone()));")
        body.append("            let auth_state = match &auth { None => \"absent\", Some(a) if a == &format!(\"Basic {}\", base64(format!(\"{user}:{pass}\").as_bytes())) => \"correct\", _ => \"other\" };")
        body.append("            let body_is_ser = first.as_ref().map(|r| r.3 == sent).unwrap_or(false);")
        body.append("            let same_value = !value_xml.is_empty() && (value_xml == reply_exact);")
        body.append(f"            ev.push({cid}, \"call\", &[(\"op\", s({rs_str(name)})), (\"scn\", n(scn)), (\"violates\", b(violates)), (\"creds\", s(creds)), (\"kind\", s(kind)), (\"status\", n(status as usize)), (\"body\", s(body_class)), (\"has_out\", b({str(has_out).lower()})),")
        body.append("                (\"result\", s(result)), (\"accepted\", n(seen.accepted)), (\"posts\", n(seen.requests.len())), (\"method\", s(&method)), (\"path\", s(&path)), (\"auth\", s(auth_state)), (\"body_is_ser\", b(body_is_ser)), (\"same_value\", b(same_value)), (\"declared\", s(&declared))]);")
        body.append("        }")
        body.append("    }")
    out.append(f"const FAULT: &str = {rs_str(FAULT_XML)};")
    out.append("""fn base64(data: &[u8]) -> String {
    const T: &[u8; 64] = b"ABCDEFGHIJKLMNOPQRSTUVWXYZabcdefghijklmnopqrstuvwxyz0123456789+/";
    let mut o = String::new();
    for ch in data.chunks(3) {
        let b = [ch[0], *ch.get(1).unwrap_or(&0), *ch.get(2).unwrap_or(&0)];
        o.push(T[(b[0] >> 2) as usize] as char);
        o.push(T[(((b[0] & 3) << 4) | (b[1] >> 4)) as usize] as char);
        o.push(if ch.len() > 1 { T[(((b[1] & 15) << 2) | (b[2] >> 6)) as usize] as char } else { '=' });
        o.push(if ch.len() > 2 { T[(b[2] & 63) as usize] as char } else { '=' });
    }
    o
}
""")
    if has_svc:
        out.append("\n".join(sig))
        out.append("pub fn extra(ev: &mut Events) {\n" + "\n".join(body) + "\n}\n")
    else:
        out.append(f"pub fn extra(ev: &mut Events) {{ ev.push({cid}, \"service\", &[(\"name\", s({rs_str(svc)})), (\"present\", b(false)), (\"methods\", \"[]\".to_string()), (\"free\", \"[]\".to_string())]); }}\n")
    return "\n".join(out)


def write_traces(name, vocab, cases, events, shards=4):
    """one trace file per shard: vocab, then per case: case event, pipeline events, done"""
    d = os.path.join(z.BUILD, "traces", name)
    shutil.rmtree(d, ignore_errors=True)
    os.makedirs(d, exist_ok=True)
    paths = []
    for k in range(shards):
        part = cases[k::shards]
        if not part:
            continue
        p = os.path.join(d, f"trace_{k}.ndjson")
        with open(p, "w") as f:
            f.write(json.dumps({"ev": "vocab", "vocab": vocab}) + "\n")
            for c in part:
                f.write(json.dumps({"ev": "case", "id": c["id"], "case": c}) + "\n")
                for e in events.get(str(c["id"]), events.get(c["id"], [])):
                    f.write(json.dumps(e) + "\n")
                f.write(json.dumps({"ev": "done", "id": c["id"]}) + "\n")
        paths.append(p)
    return paths
