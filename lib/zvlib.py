"""Orchestration helpers for the zeep verification framework.

This file holds no pass/fail logic: verdicts are the VIOL / KNOWN / STALE lines that TLC prints when it
evaluates the property clauses of the specification on observed behaviour.
"""
import json, os, re, subprocess, sys, time, hashlib, shutil, signal

VERIF = os.path.dirname(os.path.dirname(os.path.abspath(__file__)))
REPO = os.environ.get("ZV_REPO", "/repo")
BUILD = os.path.join(VERIF, "build")
SPEC = os.path.join(VERIF, "spec")
TLA_CP = "/opt/veriftools/tla/tla2tools.jar:/opt/veriftools/tla/CommunityModules-deps.jar"
ZV = os.path.join(BUILD, "target", "debug", "zv")
NCPU = os.cpu_count() or 4


class ToolError(Exception):
    pass


def log(*a):
    print("[zv]", *a, file=sys.stderr, flush=True)


def seed():
    try:
        return int(os.environ.get("VERIF_SEED", "1"))
    except ValueError:
        return 1


# ------------------------------------------------------------------ known findings

def known_findings():
    """parse known-findings.txt -> (open list, fixed list); each open entry is a dict of key=value fields"""
    opened, fixed = [], []
    p = os.path.join(VERIF, "known-findings.txt")
    if not os.path.exists(p):
        return opened, fixed
    for line in open(p):
        line = line.strip()
        if not line or line.startswith("#"):
            continue
        if line.startswith("open:"):
            d = dict(re.findall(r'(\w+)=("[^"]*"|\S+)', line[5:]))
            d = {k: v.strip('"') for k, v in d.items()}
            d["_line"] = line
            opened.append(d)
        elif line.startswith("fixed:"):
            fixed.append(line)
    return opened, fixed


def dev_set(prop=None):
    opened, _ = known_findings()
    return sorted({d["dev"] for d in opened if "dev" in d})


# ------------------------------------------------------------------ TLC

def unescape_tla_string(s):
    # TLC prints strings with \" and \\ escapes
    out, i = [], 0
    while i < len(s):
        c = s[i]
        if c == "\\" and i + 1 < len(s):
            n = s[i + 1]
            if n == "n":
                out.append("\n")
            elif n == "t":
                out.append("\t")
            elif n == "r":
                out.append("\r")
            elif n == "f":
                out.append("\f")
            else:
                out.append(n)
            i += 2
        else:
            out.append(c)
            i += 1
    return "".join(out)


TAG_RE = re.compile(r'^<<"([A-Z_]+)", (.*)>>$')


def parse_tagged(stdout):
    """lines of the form <<"TAG", "json">> or <<"TAG", a, b>> -> list of (tag, payload)"""
    res = []
    for line in stdout.splitlines():
        m = TAG_RE.match(line.strip())
        if not m:
            continue
        tag, rest = m.group(1), m.group(2)
        if rest.startswith('"') and rest.endswith('"'):
            body = unescape_tla_string(rest[1:-1])
            try:
                res.append((tag, json.loads(body)))
            except json.JSONDecodeError:
                res.append((tag, body))
        else:
            res.append((tag, rest))
    return res


def tlc(module_path, cfg_text, workers=4, timeout=900, env_extra=None, simulate=None, name=None, heap="4g", liveness=True, deque=False):
    """run TLC; returns dict(stdout, states, distinct, ok, wall)"""
    name = name or os.path.basename(module_path).replace(".tla", "")
    work = os.path.join(BUILD, "tlc", name)
    shutil.rmtree(work, ignore_errors=True)
    os.makedirs(work, exist_ok=True)
    cfg = os.path.join(work, name + ".cfg")
    open(cfg, "w").write(cfg_text)
    jopts = ["-XX:+UseParallelGC", "-Xss1g", "-Xmx" + heap, "-DTLA-Library=" + SPEC + ":" + os.path.join(SPEC, "mc") + ":" + os.path.join(SPEC, "trace")]
    if deque:
        jopts.append("-Dtlc2.tool.queue.IStateQueue=StateDeque")
    cmd = ["java"] + jopts + ["-cp", TLA_CP, "tlc2.TLC", "-workers", str(workers), "-metadir", os.path.join(work, "meta"),
                               "-cleanup", "-noGenerateSpecTE", "-config", cfg]
    cmd += ["-seed", str(seed())]      # Randomization!RandomSubset and -simulate draw from TLC's seed
    if simulate:
        cmd += ["-simulate", simulate]
    cmd.append(module_path)
    env = dict(os.environ)
    env.pop("JAVA_TOOL_OPTIONS", None)
    if env_extra:
        env.update(env_extra)
    t0 = time.time()
    try:
        p = subprocess.run(cmd, stdout=subprocess.PIPE, stderr=subprocess.STDOUT, timeout=timeout, env=env, cwd=work)
    except subprocess.TimeoutExpired:
        raise ToolError(f"TLC timed out after {timeout}s on {name}")
    out = p.stdout.decode("utf-8", "replace")
    open(os.path.join(work, "stdout.txt"), "w").write(out)
    res = {"stdout": out, "rc": p.returncode, "wall": time.time() - t0, "states": 0, "distinct": 0}
    m = re.search(r"(\d+) states generated, (\d+) distinct states found", out)
    if m:
        res["states"], res["distinct"] = int(m.group(1)), int(m.group(2))
    res["ok"] = p.returncode == 0 and "Model checking completed. No error has been found." in out
    if simulate:
        res["ok"] = p.returncode == 0 or "Simulation" in out
    return res


def tlc_fail_summary(res, n=40):
    lines = [l for l in res["stdout"].splitlines() if not l.startswith(("Parsing", "Semantic", "Linting", '<<"CASE"', '<<"VOCAB"'))]
    return "\n".join(lines[-n:])


# ------------------------------------------------------------------ harness

def tree_hash():
    """hash of /repo's working tree sources (outside target/.git)"""
    h = hashlib.sha256()
    for root, dirs, files in os.walk(REPO):
        dirs[:] = sorted(d for d in dirs if d not in ("target", ".git", "examples", "resources"))
        for f in sorted(files):
            p = os.path.join(root, f)
            h.update(p.encode())
            try:
                h.update(open(p, "rb").read())
            except OSError:
                pass
    return h.hexdigest()[:16]


def build_harness():
    t0 = time.time()
    hdir = os.path.join(VERIF, "harness")
    env = dict(os.environ, CARGO_NET_OFFLINE="true")
    p = subprocess.run(["cargo", "build", "--offline", "-q"], cwd=hdir, env=env, stdout=subprocess.PIPE, stderr=subprocess.STDOUT)
    if p.returncode != 0:
        sys.stderr.write(p.stdout.decode("utf-8", "replace")[-4000:])
        raise ToolError("harness build failed (does /repo compile with --features verif?)")
    return time.time() - t0


def build_zeep_bin():
    """build the zeep CLI from /repo's working tree into /verif/build/zeep_target; returns the binary path"""
    td = os.path.join(BUILD, "zeep_target")
    env = dict(os.environ, CARGO_NET_OFFLINE="true")
    p = subprocess.run(["cargo", "build", "--offline", "-q", "-p", "zeep", "--target-dir", td], cwd=REPO, env=env,
                       stdout=subprocess.PIPE, stderr=subprocess.STDOUT)
    if p.returncode != 0:
        sys.stderr.write(p.stdout.decode("utf-8", "replace")[-3000:])
        raise ToolError("building the zeep binary failed")
    return os.path.join(td, "debug", "zeep")


def write_cases(path, vocab, cases):
    with open(path, "w") as f:
        f.write(json.dumps({"vocab": vocab}) + "\n")
        for c in cases:
            f.write(json.dumps(c) + "\n")


def _run_shard(cases_path, out_path, ncases, per_case_timeout=20, dump=None):
    """run zv over one shard with crash/timeout recovery; returns number of crashed cases"""
    if os.path.exists(out_path):
        os.remove(out_path)
    prog = out_path + ".progress"
    frm = 0
    crashed = 0
    case_lines = open(cases_path).read().splitlines()[1:]
    while frm < ncases:
        if os.path.exists(prog):
            os.remove(prog)
        cmd = [ZV, "run", "--cases", cases_path, "--out", out_path, "--progress", prog, "--from", str(frm)]
        if dump:
            cmd += ["--dump-dir", dump]
        p = subprocess.Popen(cmd, stdout=subprocess.DEVNULL, stderr=subprocess.PIPE)
        # watchdog: progress must advance
        last, last_t = None, time.time()
        outcome = None
        while True:
            try:
                p.wait(timeout=0.5)
                break
            except subprocess.TimeoutExpired:
                cur = open(prog).read() if os.path.exists(prog) else None
                if cur != last:
                    last, last_t = cur, time.time()
                elif time.time() - last_t > per_case_timeout:
                    p.kill()
                    p.wait()
                    outcome = "timeout"
                    break
        cur = open(prog).read().strip() if os.path.exists(prog) else ""
        if cur == "done" and p.returncode == 0:
            break
        if cur == "" or cur == "done":
            raise ToolError("harness died before starting a case: rc=%s %s" % (p.returncode, (p.stderr.read() or b"").decode()[-500:]))
        idx = int(cur)
        if outcome is None:
            rc = p.returncode
            outcome = "crash"
            sig = -rc if rc is not None and rc < 0 else 0
            err = (p.stderr.read() or b"").decode("utf-8", "replace")
            if "overflowed its stack" in err or sig in (signal.SIGSEGV, signal.SIGABRT, signal.SIGBUS):
                outcome = "overflow" if "overflowed its stack" in err else "crash"
        case = json.loads(case_lines[idx])
        with open(out_path, "a") as f:
            f.write(json.dumps({"ev": "case", "id": case.get("id"), "case": case}) + "\n")
            f.write(json.dumps({"ev": "call", "api": "read_xml", "n": 1}) + "\n")
            f.write(json.dumps({"ev": "ret", "api": "read_xml", "n": 1, "outcome": outcome}) + "\n")
            f.write(json.dumps({"ev": "done", "id": case.get("id")}) + "\n")
        crashed += 1
        frm = idx + 1
    return crashed


def run_harness(vocab, cases, name, shards=None, per_case_timeout=20, dump=None):
    """run all cases through zv in parallel shards; returns (list of trace paths, crashed count)"""
    from concurrent.futures import ThreadPoolExecutor
    d = os.path.join(BUILD, "traces", name)
    shutil.rmtree(d, ignore_errors=True)
    os.makedirs(d, exist_ok=True)
    shards = shards or min(NCPU, max(1, len(cases) // 50))
    parts = [cases[i::shards] for i in range(shards)]
    jobs = []
    for k, part in enumerate(parts):
        if not part:
            continue
        cp = os.path.join(d, f"cases_{k}.ndjson")
        write_cases(cp, vocab, part)
        jobs.append((cp, os.path.join(d, f"trace_{k}.ndjson"), len(part)))
    with ThreadPoolExecutor(max_workers=shards) as ex:
        crashed = list(ex.map(lambda j: _run_shard(j[0], j[1], j[2], per_case_timeout, dump), jobs))
    return [j[1] for j in jobs], sum(crashed)


def sanitize_trace(path):
    """TLC's JSON module cannot read null: replace by the string "null"; drop floats"""
    def fix(v):
        if v is None:
            return "null"
        if isinstance(v, float):
            return int(v)
        if isinstance(v, list):
            return [fix(x) for x in v]
        if isinstance(v, dict):
            # an absent record-valued member becomes the empty record (a record cannot be compared with a string)
            return {k: ({} if (x is None and k in ("output",)) else fix(x)) for k, x in v.items()}
        return v
    lines = []
    with open(path) as f:
        for line in f:
            line = line.strip()
            if line:
                lines.append(json.dumps(fix(json.loads(line))))
    with open(path, "w") as f:
        f.write("\n".join(lines) + "\n")
    return len(lines)


def validate_traces(trace_module, cfg_text, traces, name, timeout=1200, par=None):
    """run the trace specification over every trace shard (in parallel); returns list of result dicts"""
    from concurrent.futures import ThreadPoolExecutor
    par = par or min(len(traces), max(1, NCPU // 2))

    def one(args):
        k, tp = args
        n = sanitize_trace(tp)
        r = tlc(os.path.join(SPEC, "trace", trace_module + ".tla"), cfg_text, workers=1, timeout=timeout,
                env_extra={"TRACE": tp}, name=f"{name}_{k}", heap="3g", deque=True)
        r["events"] = n
        r["trace"] = tp
        return r
    with ThreadPoolExecutor(max_workers=par) as ex:
        return list(ex.map(one, list(enumerate(traces))))


# ------------------------------------------------------------------ evidence / verdict

def write_evidence(prop, tier, level, coverage, wall, violations, assumptions):
    os.makedirs(os.path.join(VERIF, "evidence"), exist_ok=True)
    ev = {"property_id": prop, "tier": tier, "seed": seed(), "level": level, "coverage": coverage,
          "assumptions": assumptions, "wall_s": round(wall, 2), "violations": violations}
    with open(os.path.join(VERIF, "evidence", prop + ".json"), "w") as f:
        json.dump(ev, f, indent=1)


def save_replay(prop, case, vocab, extra=None):
    d = os.path.join(BUILD, "replay", prop, str(case.get("id", "x")))
    os.makedirs(d, exist_ok=True)
    write_cases(os.path.join(d, "cases.ndjson"), vocab, [case])
    if extra:
        json.dump(extra, open(os.path.join(d, "violation.json"), "w"), indent=1)
    # render the concrete files next to it
    subprocess.run([ZV, "render", "--cases", os.path.join(d, "cases.ndjson"), "--id", str(case.get("id", 0)), "--dir", os.path.join(d, "files")],
                   stdout=subprocess.DEVNULL, stderr=subprocess.DEVNULL)
    return d
