#!/bin/bash
# run_seed.sh <seed-id> <property> [tier]: apply a seeded change to /repo, run the property's check, undo the change
id=$1; prop=$2; tier=${3:-quick}
cd /repo && git diff --quiet || { echo "/repo not clean"; exit 2; }
P=/verif/seeded/$id/patch.diff; [ -f /verif/seeded/$id/patch_head.diff ] && P=/verif/seeded/$id/patch_head.diff; git apply $P || { echo "patch does not apply to /repo HEAD"; exit 2; }
cd /verif && ./check $prop $tier > /verif/build/seed_$id.out 2>&1; rc=$?
git -C /repo checkout -- .
echo "seed=$id prop=$prop tier=$tier rc=$rc $(grep -c '^VIOLATION' /verif/build/seed_$id.out) violation lines, $(grep -c '^MODEL-DRIFT' /verif/build/seed_$id.out) drift"
grep -m2 "violation instance" /verif/build/seed_$id.out | cut -c1-300
exit $rc
