#!/bin/bash
# generate the corpus outputs with the zeep binary built from /repo's working tree into $1 (sorted lines, hash-order independent)
out=$1; mkdir -p $out
cd /repo && cargo build -q --offline -p zeep 2>/dev/null
for f in aacc/CustomerWS.wsdl aic/agent_wsdl.xml blz_service/blz.wsdl broadband_forum/cwmp-1-2.xsd hello/hello.wsdl number_services/number_services.wsdl simple/simple.xsd smgr/userimport.xsd temp_converter/tempconverter.wsdl weather/weather.wsdl exchange/services.wsdl; do
  n=$(echo $f | tr '/' '_')
  /repo/target/debug/zeep -i /repo/resources/$f -o $out/$n.rs 2>$out/$n.err; echo "$f rc=$?" >> $out/status.txt
  sort $out/$n.rs > $out/$n.sorted 2>/dev/null
done
