"""Writes MANIFEST.json from the table below (one entry per claimed property)."""
import json, os, sys
sys.path.insert(0, os.path.dirname(os.path.abspath(__file__)))
VERIF = os.path.dirname(os.path.dirname(os.path.abspath(__file__)))

HOOK_COMMITS = ["2f3a41c"]

CLAIMED = {
 "C11": dict(level="model_checking", design="DESIGN.md 6 C11",
   text="TLC checks NoReentry, NoOverflow, Once, Complete, NoUnreachable, DanglingIsError, RepeatSame and termination (liveness under weak fairness) on spec/Imports.tla for every import digraph over 3 (quick) or 4 (thorough) files and every start file; every one of those initial states is concretised to real .xsd files and run through the real reader/writer with hooks on; TLC then validates the recorded trace step by step against the same specification and evaluates the property clauses on the observed reads, output structs, repeated calls and sibling runs.",
   note="trusted: TLC, the concretiser and the syn-based abstraction of the emitted file; exhaustive only within the stated number of files; components are self-contained (cross-file references belong to C09/C02)",
   technique="TLA+ model checking (TLC) + trace validation of hook events recorded from the real reader"),
 "C06": dict(level="model_checking", design="DESIGN.md 6 C06",
   text="spec/Facets.tla transcribes the restriction helpers branch by branch (Built) next to the XSD facet semantics (Sat); TLC checks Built = Sat on every (carrier, wrapper, value point, restriction set) of the abstract space (exhaustive, ~63 000 states) and every state is evaluated on the unmodified helper source compiled by path under three concrete anchorings (0, carrier/i32 maximum, minimum, values outside the i32 range); TLC compares each observed result with Sat.",
   note="trusted: TLC, the anchoring of abstract points to concrete integers and strings; floats/booleans only as 'never rejected'; facet bounds are i32 as in the helper's data type",
   technique="TLA+ transcription of the function checked exhaustively by TLC, every TLC state replayed on the real helper and judged by TLC (trace validation)"),
 "C15": dict(level="fault_enumeration", design="DESIGN.md 6 C15",
   text="spec/Sink.tla models write_all over a faulty sink (fail the k-th call with a kind, Ok(0), Interrupted, short writes) and the generator's call sites; TLC checks NeverPanic, NoFalseSuccess, FaultReported, ShortWritesComplete and termination for every plan/fault/cap in the bound. On the real code every document of the corpus (three TLC-printed schema sets that use every emitter plus the repository's schemas) is written to instrumented sinks with a failure at every write-call index x error kind class and with five short-write patterns; TLC judges every run against the clauses and against Sink!Predict.",
   note="trusted: the instrumented sinks, TLC; documents with more than 2000 write calls are swept at every 997th index in the quick tier and at every index in the thorough tier",
   technique="TLA+ model of write_all/sink faults checked by TLC + exhaustive fault injection on the real writer, runs judged by TLC (trace validation)"),
}

REASONS_NOT_YET = "check not built yet in this round (planned, see DESIGN.md section 6)"

def main():
    props = [json.loads(l) for l in open(os.path.join(VERIF, "properties.jsonl"))]
    checks = []
    for p in props:
        c = CLAIMED.get(p["id"])
        if not c:
            continue
        checks.append({"property_id": p["id"], "quick_cmd": f"./check {p['id']} quick", "thorough_cmd": f"./check {p['id']} thorough",
                       "evidence_file": f"evidence/{p['id']}.json", "replay_cmd_template": f"./check {p['id']} --replay {{path}}",
                       "engine": "tlc",
                       "level_claimed": {"category": c["level"], "text": c["text"], "design_ref": c["design"]},
                       "level_note": c["note"], "technique": c["technique"]})
    m = {"version": 1, "setup_cmd": "./setup.sh",
         "hooks": {"guard": "cargo feature `verif` of zeep-lib",
                   "enable": "the harness depends on zeep-lib by path (/repo/zeep-lib) with features = [\"verif\"]; cargo rebuilds it from the working tree on every check",
                   "baseline_off_cmd": "cd /repo && cargo test --workspace --no-fail-fast --offline",
                   "source_commits": HOOK_COMMITS, "add_only": True},
         "engines": [{"name": "tlc", "path": "spec/", "serves_properties": sorted(CLAIMED),
                      "kind_free_text": "explicit TLA+ specification (spec/*.tla) checked by TLC: bounded model checking of every instance in spec/mc and validation of traces recorded from the real code with the trace specifications in spec/trace"},
                     {"name": "zv", "path": "harness/", "serves_properties": sorted(CLAIMED),
                      "kind_free_text": "Rust conformance harness: concretises TLC-generated cases, drives zeep-lib built from /repo (feature verif) and the unmodified helper source, records ndjson traces for TLC"}],
         "checks": checks,
         "notes": "verdicts are computed by TLC evaluating the property clauses of the specification on observed behaviour; known-findings.txt lists repaired and open defects",
         "not_applicable": [{"property_id": p["id"], "reason": REASONS_NOT_YET} for p in props if p["id"] not in CLAIMED]}
    json.dump(m, open(os.path.join(VERIF, "MANIFEST.json"), "w"), indent=1)
    print("MANIFEST.json:", len(checks), "checks")

if __name__ == "__main__":
    main()
