#!/bin/bash
# run_benign.sh <id> [tier]: apply a behaviour-preserving change (benign/<id>) to /repo, run EVERY check, undo the change.
# The framework must stay quiet: every check exits 0 (MODEL-DRIFT lines are allowed: they are not alarms).
id=$1; tier=${2:-quick}
cd /repo && git diff --quiet || { echo "/repo not clean"; exit 2; }
P=/verif/benign/$id/patch.diff; [ -f /verif/benign/$id/patch_head.diff ] && P=/verif/benign/$id/patch_head.diff
git apply $P || { echo "patch does not apply to /repo HEAD"; exit 2; }
cd /verif && bash lib/run_all.sh $tier > /verif/build/benign_$id.log 2>&1
git -C /repo checkout -- .
bad=$(grep -vc "rc=0 " /verif/build/benign_$id.log)
echo "benign=$id tier=$tier checks=$(grep -c rc= /verif/build/benign_$id.log) not_quiet=$bad drift=$(awk '{s+=$(NF-1)} END {print s}' /verif/build/benign_$id.log)"
grep -v "rc=0 " /verif/build/benign_$id.log
exit $bad
