#!/bin/bash
# show the TLC error of a run directory (build/tlc/<name>)
grep -v -E "^(Parsing|Semantic|Linting|[0-9]+\. Line)" "$1/stdout.txt" | grep -B2 -A8 -m1 -E "Error:|exception" | cut -c1-600
