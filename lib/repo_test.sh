#!/bin/bash
# run the repository's test suite (guard off); exit 0 only if 32 passed and none failed
cd /repo && out=$(cargo test --workspace --no-fail-fast --offline 2>&1)
echo "$out" | grep -E "^test result: .* [1-9][0-9]* passed|FAILED|panicked|left:|right:" | head
echo "$out" | grep -q "32 passed; 0 failed" 
