#!/bin/bash
# run the given tier for the listed properties: lib/run_some.sh thorough C12 C13 ...
tier=$1; shift
cd "$(dirname "$0")/.."
for p in "$@"; do
  s=$(date +%s); ./check $p $tier > build/some_$p.out 2>&1; rc=$?; e=$(date +%s)
  echo "$p $tier rc=$rc $((e-s))s $(grep -c '^VIOLATION' build/some_$p.out) viol $(grep -c '^KNOWN-FINDING' build/some_$p.out) known $(grep -c '^MODEL-DRIFT' build/some_$p.out) drift"
done
