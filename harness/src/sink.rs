//! C15 driver: write_xml on instrumented sinks (fault at call k with an error kind; short writes).
use crate::run::{fnv, build_files};
use serde_json::{json, Value};
use std::io::{self, ErrorKind, Write};
use std::panic::{catch_unwind, AssertUnwindSafe};
use zeep_lib::reader::{FilesToRead, WriteXml, XmlReader};

/// records the length of every write call
struct PlanSink {
    buf: Vec<u8>,
    lens: Vec<usize>,
}
impl Write for PlanSink {
    fn write(&mut self, b: &[u8]) -> io::Result<usize> {
        self.lens.push(b.len());
        self.buf.extend_from_slice(b);
        Ok(b.len())
    }
    fn flush(&mut self) -> io::Result<()> {
        Ok(())
    }
}

#[derive(Clone, Copy)]
enum Fault {
    Err(ErrorKind),
    Zero,
}

struct FaultSink {
    buf: Vec<u8>,
    calls: usize,
    fail_at: usize, // 1-based
    fault: Fault,
}
impl Write for FaultSink {
    fn write(&mut self, b: &[u8]) -> io::Result<usize> {
        self.calls += 1;
        if self.calls == self.fail_at {
            return match self.fault {
                Fault::Err(k) => Err(io::Error::new(k, "injected fault")),
                Fault::Zero => Ok(0),
            };
        }
        self.buf.extend_from_slice(b);
        Ok(b.len())
    }
    fn flush(&mut self) -> io::Result<()> {
        Ok(())
    }
}

struct ShortSink {
    buf: Vec<u8>,
    pattern: Vec<usize>, // cycle of caps (>=1)
    calls: usize,
}
impl Write for ShortSink {
    fn write(&mut self, b: &[u8]) -> io::Result<usize> {
        let cap = self.pattern[self.calls % self.pattern.len()].max(1);
        self.calls += 1;
        let n = b.len().min(cap);
        self.buf.extend_from_slice(&b[..n]);
        Ok(n)
    }
    fn flush(&mut self) -> io::Result<()> {
        Ok(())
    }
}

fn classify<T>(r: std::thread::Result<Result<T, impl std::fmt::Debug>>) -> String {
    match r {
        Ok(Ok(_)) => "ok".to_string(),
        Ok(Err(e)) => {
            let s = format!("{e:?}");
            if s.starts_with("Io") { "err_io".to_string() } else { "err_other".to_string() }
        }
        Err(_) => "panic".to_string(),
    }
}

const OTHER_KINDS: [(ErrorKind, &str); 6] = [
    (ErrorKind::Other, "Other"),
    (ErrorKind::BrokenPipe, "BrokenPipe"),
    (ErrorKind::PermissionDenied, "PermissionDenied"),
    (ErrorKind::WouldBlock, "WouldBlock"),
    (ErrorKind::TimedOut, "TimedOut"),
    (ErrorKind::UnexpectedEof, "UnexpectedEof"),
];

pub fn run(ftr: &FilesToRead, case: &Value) -> Vec<String> {
    let mut ev = vec![];
    let doc = match catch_unwind(AssertUnwindSafe(|| XmlReader::read_xml(ftr))) {
        Ok(Ok(d)) => d,
        Ok(Err(e)) => {
            ev.push(json!({"ev":"skipped_doc","why":format!("does not read: {}", e.to_string().chars().take(80).collect::<String>())}).to_string());
            return ev;
        }
        Err(_) => {
            ev.push(json!({"ev":"skipped_doc","why":"panics on read"}).to_string());
            return ev;
        }
    };
    let mut plan = PlanSink { buf: vec![], lens: vec![] };
    let base = classify(catch_unwind(AssertUnwindSafe(|| doc.write_xml(&mut plan))));
    ev.push(json!({"ev":"base_run","result":base}).to_string());
    let n = plan.lens.len();
    let digest = fnv(&plan.buf);
    let small = n <= 2000;
    ev.push(json!({"ev":"plan","calls":n,"bytes":plan.buf.len(),"lens": if small { json!(plan.lens) } else { json!([]) }}).to_string());
    let stride = if small { 1 } else { case["stride"].as_u64().unwrap_or(997) as usize };
    let offset = if small { 0 } else { (case["seed"].as_u64().unwrap_or(1) as usize) % stride };
    // faults: every index (or every stride-th), plus two beyond the end
    // `parts` > 1: this case covers the indices k with k % parts == part (big documents are split over several workers)
    let parts = case["parts"].as_u64().unwrap_or(1).max(1) as usize;
    let part = case["part"].as_u64().unwrap_or(0) as usize;
    let mut ks: Vec<usize> = (1..=n)
        .filter(|k| (k + offset) % stride == 0 || *k <= 3 || *k + 3 > n)
        .filter(|k| k % parts == part)
        .collect();
    if part == 0 {
        ks.push(n + 1);
        ks.push(n + 7);
    }
    for k in ks {
        // error kinds: rotate through the "other" kinds so that each index sees one, every 5th index all of them
        let mut faults: Vec<(Fault, &str, &str)> = vec![];
        if k % 5 == 0 || !small {
            for (kind, name) in OTHER_KINDS {
                faults.push((Fault::Err(kind), "other", name));
            }
        } else {
            let (kind, name) = OTHER_KINDS[k % OTHER_KINDS.len()];
            faults.push((Fault::Err(kind), "other", name));
        }
        faults.push((Fault::Err(ErrorKind::Interrupted), "interrupted", "Interrupted"));
        faults.push((Fault::Zero, "zero", "Ok(0)"));
        for (fault, class, name) in faults {
            let mut s = FaultSink { buf: vec![], calls: 0, fail_at: k, fault };
            let r = classify(catch_unwind(AssertUnwindSafe(|| doc.write_xml(&mut s))));
            let same = fnv(&s.buf) == digest;
            ev.push(json!({"ev":"fault_run","k":k,"kind":class,"errkind":name,"result":r,"calls":s.calls,"bytes":s.buf.len(),"same":same}).to_string());
        }
    }
    // short writes
    let seed = case["seed"].as_u64().unwrap_or(1);
    let mut x = seed.wrapping_mul(6364136223846793005).wrapping_add(1442695040888963407);
    let mut rnd = || {
        x ^= x << 13;
        x ^= x >> 7;
        x ^= x << 17;
        (x % 23) as usize + 1
    };
    let patterns: Vec<(String, Vec<usize>)> = vec![
        ("1".to_string(), vec![1]),
        ("2".to_string(), vec![2]),
        ("7".to_string(), vec![7]),
        ("1,64".to_string(), vec![1, 64]),
        ("seeded".to_string(), (0..31).map(|_| rnd()).collect()),
    ];
    for (name, pattern) in patterns {
        if part != 0 {
            break;
        }
        if !small && name == "1" {
            // one byte per call on megabytes of output is slow but still linear; keep it
        }
        let mut s = ShortSink { buf: vec![], pattern, calls: 0 };
        let r = classify(catch_unwind(AssertUnwindSafe(|| doc.write_xml(&mut s))));
        let same = fnv(&s.buf) == digest;
        ev.push(json!({"ev":"short_run","pattern":name,"result":r,"same":same,"calls":s.calls}).to_string());
    }
    ev
}

pub fn run_case(files: &[(String, String)], start: &str, case: &Value) -> Vec<String> {
    if let Some(p) = case["path"].as_str() {
        match zeep_lib::utils::read_input_file_and_xsd_files_at_path(std::path::Path::new(p)) {
            Ok(ftr) => run(&ftr, case),
            Err(e) => vec![json!({"ev":"harness_error","msg":format!("cannot load {p}: {e}")}).to_string()],
        }
    } else {
        let ftr = build_files(files, None, start);
        run(&ftr, case)
    }
}
