//! Abstraction of XML text: namespace-aware infoset with expanded names (roxmltree), or "not well-formed".
use serde_json::{json, Value};

fn node(n: roxmltree::Node) -> Value {
    let kids: Vec<Value> = n.children().filter(|c| c.is_element()).map(node).collect();
    let mut attrs: Vec<Value> = n
        .attributes()
        .map(|a| {
            let name = match a.namespace() {
                Some(ns) => format!("{{{ns}}}{}", a.name()),
                None => a.name().to_string(),
            };
            json!({"name": name, "text": a.value()})
        })
        .collect();
    attrs.sort_by(|a, b| a["name"].as_str().cmp(&b["name"].as_str()));
    let text = if kids.is_empty() {
        n.children().filter(|c| c.is_text()).filter_map(|c| c.text()).collect::<String>()
    } else {
        "-".to_string()
    };
    json!({"ns": n.tag_name().namespace().unwrap_or(""), "local": n.tag_name().name(), "attrs": attrs, "kids": kids, "text": text})
}

pub fn infoset(xml: &str) -> Value {
    match roxmltree::Document::parse(xml) {
        Ok(d) => json!({"wf": true, "tree": node(d.root_element())}),
        Err(e) => json!({"wf": false, "err": e.to_string(), "tree": {"ns":"", "local":"", "attrs":[], "kids":[], "text":""}}),
    }
}

/// add an "info" field to every event that carries an "xml" field
pub fn convert_file(input: &str, output: &str) {
    let text = std::fs::read_to_string(input).expect("input");
    let mut out = String::new();
    for line in text.lines() {
        if line.trim().is_empty() {
            continue;
        }
        match serde_json::from_str::<Value>(line) {
            Ok(mut v) => {
                if let Some(x) = v.get("xml").and_then(Value::as_str).map(ToString::to_string) {
                    let ok = v.get("ok").and_then(Value::as_bool).unwrap_or(true);
                    if ok && !x.is_empty() {
                        v["info"] = infoset(&x);
                    } else {
                        v["info"] = json!({"wf": false, "err": "no document", "tree": {"ns":"", "local":"", "attrs":[], "kids":[], "text":""}});
                    }
                }
                out.push_str(&v.to_string());
                out.push('\n');
            }
            Err(_) => {
                out.push_str(&json!({"ev":"garbage","line":line.chars().take(200).collect::<String>()}).to_string());
                out.push('\n');
            }
        }
    }
    std::fs::write(output, out).expect("output");
}
