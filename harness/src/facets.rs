//! C06 driver: evaluates the unmodified helper source (included by path) on concrete anchorings of an abstract triple.
use crate::hc::restrictions::{CheckRestrictions, Restrictions};
use serde_json::{json, Value};
use std::rc::Rc;

fn set1(v: &Value) -> Option<i64> {
    v.as_array().and_then(|a| a.first()).and_then(Value::as_i64)
}

fn carrier_range(c: &str) -> (i128, i128) {
    match c {
        "i8" => (i128::from(i8::MIN), i128::from(i8::MAX)),
        "u8" => (0, i128::from(u8::MAX)),
        "i16" => (i128::from(i16::MIN), i128::from(i16::MAX)),
        "u16" => (0, i128::from(u16::MAX)),
        "i32" => (i128::from(i32::MIN), i128::from(i32::MAX)),
        "u32" => (0, i128::from(u32::MAX)),
        "i64" => (i128::from(i64::MIN), i128::from(i64::MAX)),
        "u64" => (0, i128::from(u64::MAX)),
        _ => (i128::from(i32::MIN), i128::from(i32::MAX)),
    }
}

/// anchor for offsets -2..2 (values) and -1..1 (bounds, which must be i32):
/// 0 mid, 1 hi (max-1), 2 lo (min+1), 3 top (max), 4 bottom (min); max/min of the carrier clipped to i32
fn anchor(c: &str, k: usize) -> i128 {
    let (cmin, cmax) = carrier_range(c);
    let top = cmax.min(i128::from(i32::MAX));
    let bottom = cmin.max(i128::from(i32::MIN));
    match k {
        0 => if cmin < 0 { 0 } else { 2 },
        1 => top - 1,
        2 => bottom + 1,
        3 => top,
        _ => bottom,
    }
}

fn concrete(c: &str, k: usize, v: i64) -> i128 {
    let (cmin, cmax) = carrier_range(c);
    match v {
        -100 => [i128::from(i32::MIN) - 1, cmin.max(i128::from(i64::MIN)), i128::from(i32::MIN) - 1000, i128::from(i32::MIN) - 1, cmin.max(i128::from(i64::MIN))][k],
        100 => [i128::from(i32::MAX) + 1, cmax, i128::from(i32::MAX) + 1000, i128::from(i32::MAX) + 1, cmax][k],
        o => anchor(c, k) + i128::from(o),
    }
}

fn restr(c: &str, k: usize, r: &Value, enum_has: Option<&str>) -> Option<Rc<Restrictions>> {
    if !r["present"].as_bool().unwrap_or(false) {
        return None;
    }
    let b = |name: &str| set1(&r[name]).map(|o| i32::try_from(anchor(c, k) + i128::from(o)).unwrap_or_else(|_| std::panic::panic_any(Skip)));
    let n = |name: &str| set1(&r[name]).map(|o| usize::try_from(o).unwrap());
    let enumeration = match r["enum"].as_str().unwrap_or("absent") {
        "has" => Some(vec!["zq1".to_string(), enum_has.unwrap_or("zq3").to_string(), "zq2".to_string()]),
        "hasnot" => Some(vec!["zq1".to_string(), "zq2".to_string()]),
        "empty" => Some(vec![]),
        _ => None,
    };
    Some(Rc::new(Restrictions {
        min_inclusive: b("minInc"),
        max_inclusive: b("maxInc"),
        min_exclusive: b("minExc"),
        max_exclusive: b("maxExc"),
        length: n("len"),
        min_length: n("minLen"),
        max_length: n("maxLen"),
        enumeration,
    }))
}

fn wrapped<T: CheckRestrictions + Clone>(wrap: &str, vals: &[T], r: Option<Rc<Restrictions>>) -> Result<(), String> {
    let res = match wrap {
        "bare" => vals[0].check_restrictions(r),
        "some" => Some(vals[0].clone()).check_restrictions(r),
        "none" => None::<T>.check_restrictions(r),
        _ => vals.to_vec().check_restrictions(r),
    };
    res.map_err(|e| e.to_string())
}

fn ints<T: CheckRestrictions + Clone + TryFrom<i128>>(wrap: &str, vals: &[i128], r: Option<Rc<Restrictions>>) -> Result<(), String> {
    let v: Vec<T> = vals.iter().map(|x| T::try_from(*x).unwrap_or_else(|_| std::panic::panic_any(Skip))).collect();
    wrapped(wrap, &v, r)
}

/// an anchoring under which a bound does not fit i32 or a value does not fit its carrier is skipped
struct Skip;

const ASCII: [&str; 5] = ["abc", "xyz", "a b", "ABC", "q-r"];
const MULTI: [&str; 5] = ["\u{e4}\u{df}\u{20ac}", "\u{1d11e}\u{e9}\u{4e2d}", "\u{20ac}\u{20ac}\u{1d11e}", "\u{e4}b\u{20ac}", "\u{4e2d}\u{4e2d}\u{4e2d}"];

pub fn run(case: &Value) -> Vec<String> {
    let c = &case["c"];
    let carrier = c["carrier"].as_str().unwrap_or("i32");
    let wrap = c["wrap"].as_str().unwrap_or("bare");
    let vals = c["vals"].as_array().cloned().unwrap_or_default();
    let mut out = vec![];
    for (k, aname) in ["mid", "hi", "lo", "top", "bottom"].iter().enumerate() {
        let one = std::panic::catch_unwind(std::panic::AssertUnwindSafe(|| -> Result<(), String> {
        if carrier == "String" {
            let sv: Vec<String> = vals
                .iter()
                .map(|v| {
                    if let Some(n) = set1(&v["num"]) {
                        // a numeral has no carrier: LOW/HIGH are the points of the i64 line, offsets are anchored like the i32 bounds
                        match n {
                            -100 | 100 => concrete("i64", k, n).to_string(),
                            o => (anchor("i32", k) + i128::from(o)).to_string(),
                        }
                    } else {
                        let len = v["len"].as_u64().unwrap_or(0) as usize;
                        let src = if v["mb"].as_bool().unwrap_or(false) { MULTI[k] } else { ASCII[k] };
                        src.chars().take(len).collect()
                    }
                })
                .collect();
            let r = restr("i32", k, &c["R"], sv.first().map(String::as_str));
            wrapped(wrap, &sv, r)
        } else {
            let r = restr(carrier, k, &c["R"], None);
            let iv: Vec<i128> = vals.iter().map(|v| concrete(carrier, k, v.as_i64().unwrap_or(0))).collect();
            match carrier {
                "i8" => ints::<i8>(wrap, &iv, r),
                "u8" => ints::<u8>(wrap, &iv, r),
                "i16" => ints::<i16>(wrap, &iv, r),
                "u16" => ints::<u16>(wrap, &iv, r),
                "i32" => ints::<i32>(wrap, &iv, r),
                "u32" => ints::<u32>(wrap, &iv, r),
                "i64" => ints::<i64>(wrap, &iv, r),
                "u64" => ints::<u64>(wrap, &iv, r),
                "bool" => wrapped(wrap, &[k % 2 == 1], r),
                "f32" => wrapped(wrap, &[[0.0f32, f32::MAX, f32::NAN, f32::MIN, -0.0][k]], r),
                "f64" => wrapped(wrap, &[[0.0f64, f64::MIN, f64::INFINITY, f64::MAX, f64::NAN][k]], r),
                o => Err(format!("unknown carrier {o}")),
            }
        }
        }));
        let res = match one {
            Ok(r) => r,
            Err(p) if p.is::<Skip>() => continue,
            Err(p) => std::panic::resume_unwind(p),
        };
        out.push(json!({"ev":"check","anchor":aname,"ok":res.is_ok(),"msg":res.err().unwrap_or_default()}).to_string());
    }
    out
}
