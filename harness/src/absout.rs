//! Abstraction function: emitted Rust text -> abstract output (JSON).
//! Records what the file *says* (items, attributes, field wrappers, paths); it judges nothing.

use proc_macro2::{Delimiter, TokenStream, TokenTree};
use serde_json::{json, Map, Value};
use syn::visit::Visit;

pub const HELPER_MODS: &[&str] = &["error", "helpers", "restrictions", "multi_ref"];

fn lit_str(tt: &TokenTree) -> Option<String> {
    if let TokenTree::Literal(l) = tt {
        let ts: TokenStream = TokenTree::Literal(l.clone()).into();
        if let Ok(ls) = syn::parse2::<syn::LitStr>(ts) {
            return Some(ls.value());
        }
    }
    None
}

/// parse `k = v, k = v` of a yaserde attribute by hand
fn yaserde_kv(ts: TokenStream) -> Map<String, Value> {
    let mut m = Map::new();
    let toks: Vec<TokenTree> = ts.into_iter().collect();
    let mut i = 0;
    while i < toks.len() {
        if let TokenTree::Ident(id) = &toks[i] {
            let key = id.to_string();
            if i + 2 < toks.len() + 0 && matches!(&toks[i + 1], TokenTree::Punct(p) if p.as_char() == '=') {
                let val = &toks[i + 2];
                match val {
                    TokenTree::Group(g) if g.delimiter() == Delimiter::Brace => {
                        // namespaces = { "p" = "u", ... }
                        let inner: Vec<TokenTree> = g.stream().into_iter().collect();
                        let mut pairs = vec![];
                        let mut j = 0;
                        while j < inner.len() {
                            if let (Some(a), Some(TokenTree::Punct(p)), Some(b)) = (inner.get(j), inner.get(j + 1), inner.get(j + 2)) {
                                if p.as_char() == '=' {
                                    if let (Some(a), Some(b)) = (lit_str(a), lit_str(b)) {
                                        pairs.push(json!([a, b]));
                                        j += 3;
                                        continue;
                                    }
                                }
                            }
                            j += 1;
                        }
                        m.insert(key, Value::Array(pairs));
                    }
                    TokenTree::Ident(b) => {
                        let t = b.to_string();
                        m.insert(key, if t == "true" { Value::Bool(true) } else if t == "false" { Value::Bool(false) } else { Value::String(t) });
                    }
                    other => {
                        m.insert(key, lit_str(other).map_or(Value::String(other.to_string()), Value::String));
                    }
                }
                i += 3;
                continue;
            }
            m.insert(key, Value::Bool(true));
        }
        i += 1;
    }
    m
}

fn attrs_info(attrs: &[syn::Attribute]) -> (Value, Vec<String>, Vec<String>) {
    let mut y = Map::new();
    let mut has_y = false;
    let mut derives = vec![];
    let mut docs = vec![];
    for a in attrs {
        if a.path().is_ident("yaserde") {
            has_y = true;
            if let syn::Meta::List(l) = &a.meta {
                for (k, v) in yaserde_kv(l.tokens.clone()) {
                    y.insert(k, v);
                }
            }
        } else if a.path().is_ident("derive") {
            if let syn::Meta::List(l) = &a.meta {
                for t in l.tokens.clone() {
                    if let TokenTree::Ident(i) = t {
                        derives.push(i.to_string());
                    }
                }
            }
        } else if a.path().is_ident("doc") {
            if let syn::Meta::NameValue(nv) = &a.meta {
                if let syn::Expr::Lit(syn::ExprLit { lit: syn::Lit::Str(s), .. }) = &nv.value {
                    docs.push(s.value());
                }
            }
        }
    }
    (Value::Object(if has_y { y } else { Map::new() }), derives, docs)
}

fn path_str(p: &syn::Path) -> String {
    p.segments.iter().map(|s| s.ident.to_string()).collect::<Vec<_>>().join("::")
}

fn type_str(t: &syn::Type) -> String {
    match t {
        syn::Type::Path(tp) => {
            let mut s = String::new();
            for (i, seg) in tp.path.segments.iter().enumerate() {
                if i > 0 {
                    s.push_str("::");
                }
                s.push_str(&seg.ident.to_string());
                if let syn::PathArguments::AngleBracketed(ab) = &seg.arguments {
                    s.push('<');
                    let mut first = true;
                    for a in &ab.args {
                        if !first {
                            s.push(',');
                        }
                        first = false;
                        match a {
                            syn::GenericArgument::Type(t) => s.push_str(&type_str(t)),
                            o => s.push_str(&quote::quote!(#o).to_string()),
                        }
                    }
                    s.push('>');
                }
            }
            s
        }
        syn::Type::Tuple(t) if t.elems.is_empty() => "()".to_string(),
        syn::Type::Reference(r) => format!("&{}", type_str(&r.elem)),
        o => quote::quote!(#o).to_string().replace(' ', ""),
    }
}

/// (wrapper, inner type string)
fn unwrap_type(t: &syn::Type) -> (String, String) {
    if let syn::Type::Path(tp) = t {
        if tp.path.segments.len() == 1 {
            let seg = &tp.path.segments[0];
            let id = seg.ident.to_string();
            if id == "Option" || id == "Vec" {
                if let syn::PathArguments::AngleBracketed(ab) = &seg.arguments {
                    if let Some(syn::GenericArgument::Type(inner)) = ab.args.first() {
                        return (id, type_str(inner));
                    }
                }
            }
        }
    }
    ("Bare".to_string(), type_str(t))
}

/// path segments of a plain path type (no generics), else empty
fn type_segs(t: &syn::Type) -> Vec<String> {
    if let syn::Type::Path(tp) = t {
        if tp.path.segments.iter().all(|s| matches!(s.arguments, syn::PathArguments::None)) {
            return tp.path.segments.iter().map(|s| s.ident.to_string()).collect();
        }
    }
    vec![]
}

fn inner_type(t: &syn::Type) -> &syn::Type {
    if let syn::Type::Path(tp) = t {
        if tp.path.segments.len() == 1 {
            let seg = &tp.path.segments[0];
            if seg.ident == "Option" || seg.ident == "Vec" {
                if let syn::PathArguments::AngleBracketed(ab) = &seg.arguments {
                    if let Some(syn::GenericArgument::Type(inner)) = ab.args.first() {
                        return inner;
                    }
                }
            }
        }
    }
    t
}

fn ident_info(id: &syn::Ident) -> (String, String, bool) {
    let written = id.to_string();
    let raw = written.starts_with("r#");
    let un = written.trim_start_matches("r#").to_string();
    (written, un, raw)
}

fn struct_json(s: &syn::ItemStruct) -> Value {
    let (y, derives, docs) = attrs_info(&s.attrs);
    let mut fields = vec![];
    if let syn::Fields::Named(n) = &s.fields {
        for f in &n.named {
            let (fy, _, _) = attrs_info(&f.attrs);
            let (written, un, raw) = ident_info(f.ident.as_ref().unwrap());
            let (w, ty) = unwrap_type(&f.ty);
            fields.push(json!({"id": written, "name": un, "raw": raw, "w": w, "ty": ty, "seg": type_segs(inner_type(&f.ty)), "y": fy,
                               "pub": matches!(f.vis, syn::Visibility::Public(_))}));
        }
    }
    json!({"k":"struct","name": s.ident.to_string(), "derives": derives, "y": y, "fields": fields, "doc": docs,
           "pub": matches!(s.vis, syn::Visibility::Public(_))})
}

#[derive(Default)]
struct CheckVisitor {
    own: Option<Map<String, Value>>,
    delegates: Vec<String>,
}

fn self_field(e: &syn::Expr) -> Option<String> {
    if let syn::Expr::Field(f) = e {
        if let syn::Expr::Path(p) = &*f.base {
            if p.path.is_ident("self") {
                if let syn::Member::Named(id) = &f.member {
                    return Some(id.to_string());
                }
            }
        }
    }
    None
}

impl<'ast> Visit<'ast> for CheckVisitor {
    fn visit_expr_method_call(&mut self, m: &'ast syn::ExprMethodCall) {
        if m.method == "check_restrictions" {
            if let Some(f) = self_field(&m.receiver) {
                self.delegates.push(f);
            }
        }
        syn::visit::visit_expr_method_call(self, m);
    }
    fn visit_expr_struct(&mut self, s: &'ast syn::ExprStruct) {
        if s.path.segments.last().is_some_and(|x| x.ident == "Restrictions") {
            let mut m = Map::new();
            for f in &s.fields {
                if let syn::Member::Named(id) = &f.member {
                    // Some(<expr>)
                    let mut val = Value::String(quote::quote!(#f).to_string());
                    if let syn::Expr::Call(c) = &f.expr {
                        if let Some(arg) = c.args.first() {
                            if id == "enumeration" {
                                let mut items = vec![];
                                struct S<'a>(&'a mut Vec<Value>);
                                impl<'ast, 'a> Visit<'ast> for S<'a> {
                                    fn visit_lit_str(&mut self, l: &'ast syn::LitStr) {
                                        self.0.push(Value::String(l.value()));
                                    }
                                }
                                // vec![ "..".to_string(), ] is a macro: parse its tokens
                                if let syn::Expr::Macro(mac) = arg {
                                    for tt in mac.mac.tokens.clone() {
                                        if let Some(sv) = lit_str(&tt) {
                                            items.push(Value::String(sv));
                                        }
                                    }
                                } else {
                                    S(&mut items).visit_expr(arg);
                                }
                                val = Value::Array(items);
                            } else {
                                val = Value::String(quote::quote!(#arg).to_string().replace(' ', ""));
                            }
                        }
                    }
                    m.insert(id.to_string(), val);
                }
            }
            self.own = Some(m);
        }
        syn::visit::visit_expr_struct(self, s);
    }
}

fn sig_json(sig: &syn::Signature) -> Value {
    let args: Vec<Value> = sig
        .inputs
        .iter()
        .map(|a| match a {
            syn::FnArg::Receiver(r) => json!(["self", if r.reference.is_some() { "&Self" } else { "Self" }]),
            syn::FnArg::Typed(t) => json!([quote::quote!(#(t.pat)).to_string(), type_str(&t.ty)]),
        })
        .collect();
    let args: Vec<Value> = sig
        .inputs
        .iter()
        .zip(args)
        .map(|(a, v)| match a {
            syn::FnArg::Typed(t) => {
                let p = &t.pat;
                json!([quote::quote!(#p).to_string(), type_str(&t.ty)])
            }
            _ => v,
        })
        .collect();
    let ret = match &sig.output {
        syn::ReturnType::Default => "()".to_string(),
        syn::ReturnType::Type(_, t) => type_str(t),
    };
    let (written, un, raw) = ident_info(&sig.ident);
    json!({"k":"fn","id": written, "name": un, "raw": raw, "async": sig.asyncness.is_some(), "args": args, "ret": ret})
}

struct StrLits(Vec<String>);
impl<'ast> Visit<'ast> for StrLits {
    fn visit_lit_str(&mut self, l: &'ast syn::LitStr) {
        self.0.push(l.value());
    }
    fn visit_macro(&mut self, m: &'ast syn::Macro) {
        fn walk(ts: TokenStream, out: &mut Vec<String>) {
            for tt in ts {
                match &tt {
                    TokenTree::Group(g) => walk(g.stream(), out),
                    o => {
                        if let Some(s) = lit_str(o) {
                            out.push(s);
                        }
                    }
                }
            }
        }
        walk(m.tokens.clone(), &mut self.0);
    }
}

fn fn_json(sig: &syn::Signature, block: &syn::Block) -> Value {
    let mut v = sig_json(sig);
    let mut sl = StrLits(vec![]);
    sl.visit_block(block);
    v["strs"] = json!(sl.0);
    v
}

fn item_json(it: &syn::Item, out: &mut Vec<Value>) {
    match it {
        syn::Item::Struct(s) => out.push(struct_json(s)),
        syn::Item::Type(t) => {
            out.push(json!({"k":"alias","name": t.ident.to_string(), "ty": type_str(&t.ty), "seg": type_segs(&t.ty)}));
        }
        syn::Item::Impl(im) => {
            let for_ty = type_str(&im.self_ty);
            if let Some((_, path, _)) = &im.trait_ {
                let tr = path_str(path);
                if tr.ends_with("CheckRestrictions") {
                    let mut cv = CheckVisitor::default();
                    let mut arg = String::new();
                    for ii in &im.items {
                        if let syn::ImplItem::Fn(f) = ii {
                            if let Some(syn::FnArg::Typed(t)) = f.sig.inputs.iter().nth(1) {
                                let p = &t.pat;
                                arg = quote::quote!(#p).to_string();
                            }
                            cv.visit_block(&f.block);
                        }
                    }
                    out.push(json!({"k":"check","for": for_ty, "own": cv.own.map_or(Value::Null, Value::Object), "delegates": cv.delegates, "arg": arg}));
                } else {
                    out.push(json!({"k":"traitimpl","trait": tr, "for": for_ty}));
                }
            } else {
                let fns: Vec<Value> = im
                    .items
                    .iter()
                    .filter_map(|ii| if let syn::ImplItem::Fn(f) = ii { Some(fn_json(&f.sig, &f.block)) } else { None })
                    .collect();
                out.push(json!({"k":"impl","for": for_ty, "fns": fns}));
            }
        }
        syn::Item::Fn(f) => out.push(fn_json(&f.sig, &f.block)),
        syn::Item::Const(c) => out.push(json!({"k":"const","name": c.ident.to_string()})),
        syn::Item::Use(u) => {
            let t = &u.tree;
            out.push(json!({"k":"use","tree": quote::quote!(#t).to_string().replace(' ', "")}));
        }
        syn::Item::Macro(_) => out.push(json!({"k":"macro"})),
        syn::Item::Mod(_) => {}
        o => out.push(json!({"k":"other","text": quote::quote!(#o).to_string().chars().take(80).collect::<String>()})),
    }
}

pub fn abstract_output(text: &str) -> Value {
    let file = match syn::parse_file(text) {
        Ok(f) => f,
        Err(e) => {
            let st = e.span().start();
            return json!({"parses": false, "parse_err": e.to_string(), "line": st.line, "mods": [], "root": [], "helper_mods": []});
        }
    };
    let mut mods = vec![];
    let mut root = vec![];
    let mut helper_mods = vec![];
    for it in &file.items {
        if let syn::Item::Mod(m) = it {
            let name = m.ident.to_string();
            if HELPER_MODS.contains(&name.as_str()) {
                helper_mods.push(Value::String(name));
                continue;
            }
            let mut items = vec![];
            if let Some((_, content)) = &m.content {
                for ci in content {
                    if let syn::Item::Mod(inner) = ci {
                        items.push(json!({"k":"mod","name": inner.ident.to_string()}));
                    }
                    item_json(ci, &mut items);
                }
            }
            mods.push(json!({"name": name, "items": items, "pub": matches!(m.vis, syn::Visibility::Public(_))}));
        } else {
            item_json(it, &mut root);
        }
    }
    json!({"parses": true, "mods": mods, "root": root, "helper_mods": helper_mods})
}
