//! Structure-aware mutation of a rendered XML file, driven by an abstract descriptor chosen by TLC.
//! Returns None when the descriptor does not apply (no such element/attribute): the case is then trivial.
use serde_json::Value;

fn nth_with_attr<'a>(doc: &'a roxmltree::Document<'a>, attr: &str, idx: usize) -> Option<roxmltree::Node<'a, 'a>> {
    doc.descendants().filter(|n| n.is_element() && n.attribute(attr).is_some()).nth(idx.saturating_sub(1))
}

fn nth_tag<'a>(doc: &'a roxmltree::Document<'a>, tag: &str, idx: usize) -> Option<roxmltree::Node<'a, 'a>> {
    doc.descendants().filter(|n| n.is_element() && n.tag_name().name() == tag).nth(idx.saturating_sub(1))
}

fn own_name(n: roxmltree::Node) -> String {
    n.ancestors().find_map(|a| a.attribute("name")).unwrap_or("Self").to_string()
}

pub fn content_class(class: &str) -> String {
    match class {
        "empty" => String::new(),
        "text" => "this is not xml at all".to_string(),
        "unclosed" => "<xs:schema xmlns:xs=\"http://www.w3.org/2001/XMLSchema\"><xs:complexType name=\"Broken\">".to_string(),
        "decl_only" => "<?xml version=\"1.0\" encoding=\"UTF-8\"?>\n".to_string(),
        "other_xml" => "<?xml version=\"1.0\"?>\n<catalog><entry name=\"NotASchema\" type=\"t:x\" ref=\"y\"/></catalog>\n".to_string(),
        "bom" => "\u{feff}<?xml version=\"1.0\"?>\n<xs:schema xmlns:xs=\"http://www.w3.org/2001/XMLSchema\"/>".to_string(),
        "deep" => {
            let mut s = String::from("<xs:schema xmlns:xs=\"http://www.w3.org/2001/XMLSchema\"><xs:complexType name=\"Deep\">");
            for _ in 0..400 {
                s.push_str("<xs:sequence>");
            }
            s.push_str("<xs:element name=\"leaf\" type=\"xs:string\"/>");
            for _ in 0..400 {
                s.push_str("</xs:sequence>");
            }
            s.push_str("</xs:complexType></xs:schema>");
            s
        }
        "entities" => "<?xml version=\"1.0\"?>\n<!DOCTYPE s [<!ENTITY a \"aaaaaaaaaa\"><!ENTITY b \"&a;&a;&a;&a;&a;&a;&a;&a;\"><!ENTITY c \"&b;&b;&b;&b;&b;&b;&b;&b;\">]>\n<xs:schema xmlns:xs=\"http://www.w3.org/2001/XMLSchema\"><xs:simpleType name=\"E\"><xs:restriction base=\"xs:string\"><xs:enumeration value=\"&c;\"/></xs:restriction></xs:simpleType></xs:schema>".to_string(),
        "nul" => "<xs:schema xmlns:xs=\"http://www.w3.org/2001/XMLSchema\">\u{0}</xs:schema>".to_string(),
        "no_ns" => "<schema><complexType name=\"Plain\"><sequence><element name=\"a\" type=\"string\"/></sequence></complexType><element name=\"b\"/></schema>".to_string(),
        "huge_name" => format!("<xs:schema xmlns:xs=\"http://www.w3.org/2001/XMLSchema\"><xs:complexType name=\"{}\"/></xs:schema>", "N".repeat(100_000)),
        _ => "<!-- -->".to_string(),
    }
}

pub fn apply(text: &str, m: &Value) -> Option<String> {
    let op = m["op"].as_str().unwrap_or("");
    if op == "content" {
        return Some(content_class(m["class"].as_str().unwrap_or("")));
    }
    let doc = roxmltree::Document::parse(text).ok()?;
    let idx = m["idx"].as_u64().unwrap_or(1) as usize;
    match op {
        "drop_attr" => {
            let attr = m["attr"].as_str()?;
            let n = nth_with_attr(&doc, attr, idx)?;
            let a = n.attribute_node(attr)?;
            let r = a.range();
            Some(format!("{}{}", &text[..r.start], &text[r.end..]))
        }
        "set_attr" => {
            let attr = m["attr"].as_str()?;
            let n = nth_with_attr(&doc, attr, idx)?;
            let a = n.attribute_node(attr)?;
            let r = a.range_value();
            let val = match m["val"].as_str().unwrap_or("empty") {
                "empty" => String::new(),
                "dangling" => "t:NoSuchThing".to_string(),
                "unknown_prefix" => "zz:Thing".to_string(),
                "self" => format!("t:{}", own_name(n)),
                "self_plain" => own_name(n),
                "number" => "123".to_string(),
                "space" => "a b".to_string(),
                "colon" => ":".to_string(),
                "builtin" => "xs:string".to_string(),
                "unbounded" => "unbounded".to_string(),
                "negative" => "-1".to_string(),
                "url_bad" => "not a url".to_string(),
                o => o.to_string(),
            };
            Some(format!("{}{}{}", &text[..r.start], val, &text[r.end..]))
        }
        "del_elem" | "dup_elem" | "move_last" => {
            let tag = m["tag"].as_str()?;
            let n = nth_tag(&doc, tag, idx)?;
            if n == doc.root_element() {
                return None;
            }
            let r = n.range();
            let piece = &text[r.clone()];
            match op {
                "del_elem" => Some(format!("{}{}", &text[..r.start], &text[r.end..])),
                "dup_elem" => Some(format!("{}{}{}", &text[..r.end], piece, &text[r.end..])),
                _ => {
                    let parent = n.parent()?;
                    let pr = parent.range();
                    // end tag of the parent starts at the last "</" inside its range
                    let close = text[..pr.end].rfind("</")?;
                    if close < r.end {
                        return None;
                    }
                    Some(format!("{}{}{}{}", &text[..r.start], &text[r.end..close], piece, &text[close..]))
                }
            }
        }
        "rename_tag" => {
            let tag = m["tag"].as_str()?;
            let to = m["to"].as_str().unwrap_or("notschema");
            let n = nth_tag(&doc, tag, idx)?;
            let r = n.range();
            let piece = &text[r.clone()];
            // replace the local part of the start tag and (if present) of the end tag
            let open_end = piece.find(|c: char| c.is_whitespace() || c == '>' || c == '/')?;
            let qname = &piece[1..open_end];
            let newq = match qname.split_once(':') {
                Some((p, _)) => format!("{p}:{to}"),
                None => to.to_string(),
            };
            let mut out = piece.replacen(&format!("<{qname}"), &format!("<{newq}"), 1);
            if let Some(pos) = out.rfind(&format!("</{qname}")) {
                out.replace_range(pos..pos + qname.len() + 2, &format!("</{newq}"));
            }
            Some(format!("{}{}{}", &text[..r.start], out, &text[r.end..]))
        }
        _ => None,
    }
}
