//! A small Rust lexer that classifies where a marker occurs in emitted text: inside a string literal (and what the
//! literal evaluates to), a comment, or code.  Independent of `syn`, so it also works on output that does not parse.
use serde_json::{json, Value};

#[derive(Debug, Clone, PartialEq)]
pub enum Kind {
    Str,
    DocComment,
    LineComment,
    BlockComment,
    Char,
}

pub struct Span {
    pub start: usize,
    pub end: usize,
    pub kind: Kind,
}

pub fn lex(text: &str) -> Vec<Span> {
    let b = text.as_bytes();
    let mut spans = vec![];
    let mut i = 0;
    while i < b.len() {
        let c = b[i];
        if c == b'/' && i + 1 < b.len() && b[i + 1] == b'/' {
            let start = i;
            let doc = (i + 2 < b.len() && (b[i + 2] == b'/' || b[i + 2] == b'!')) && !(i + 3 < b.len() && b[i + 2] == b'/' && b[i + 3] == b'/');
            while i < b.len() && b[i] != b'\n' {
                i += 1;
            }
            spans.push(Span { start, end: i, kind: if doc { Kind::DocComment } else { Kind::LineComment } });
        } else if c == b'/' && i + 1 < b.len() && b[i + 1] == b'*' {
            let start = i;
            let mut depth = 1;
            i += 2;
            while i < b.len() && depth > 0 {
                if b[i] == b'/' && i + 1 < b.len() && b[i + 1] == b'*' {
                    depth += 1;
                    i += 2;
                } else if b[i] == b'*' && i + 1 < b.len() && b[i + 1] == b'/' {
                    depth -= 1;
                    i += 2;
                } else {
                    i += 1;
                }
            }
            spans.push(Span { start, end: i, kind: Kind::BlockComment });
        } else if c == b'"' {
            let start = i;
            i += 1;
            while i < b.len() && b[i] != b'"' {
                if b[i] == b'\\' {
                    i += 1;
                }
                i += 1;
            }
            i = (i + 1).min(b.len());
            spans.push(Span { start, end: i, kind: Kind::Str });
        } else if c == b'r' && i + 1 < b.len() && (b[i + 1] == b'"' || b[i + 1] == b'#') && (i == 0 || !(b[i - 1].is_ascii_alphanumeric() || b[i - 1] == b'_')) {
            // raw string r"..." / r#"..."#   (r#ident is a raw identifier: no quote follows the hashes)
            let start = i;
            let mut j = i + 1;
            let mut hashes = 0;
            while j < b.len() && b[j] == b'#' {
                hashes += 1;
                j += 1;
            }
            if j < b.len() && b[j] == b'"' {
                j += 1;
                loop {
                    if j >= b.len() {
                        break;
                    }
                    if b[j] == b'"' {
                        let mut k = 0;
                        while k < hashes && j + 1 + k < b.len() && b[j + 1 + k] == b'#' {
                            k += 1;
                        }
                        if k == hashes {
                            j += 1 + hashes;
                            break;
                        }
                    }
                    j += 1;
                }
                spans.push(Span { start, end: j, kind: Kind::Str });
                i = j;
            } else {
                i += 1;
            }
        } else if c == b'\'' {
            // char literal or lifetime
            if i + 2 < b.len() && b[i + 1] == b'\\' {
                let start = i;
                i += 2;
                while i < b.len() && b[i] != b'\'' {
                    i += 1;
                }
                i = (i + 1).min(b.len());
                spans.push(Span { start, end: i, kind: Kind::Char });
            } else {
                // 'x' (one char, possibly multi-byte) or a lifetime
                let rest = &text[i + 1..];
                let mut it = rest.char_indices();
                if let (Some((_, _ch)), Some((n, q))) = (it.next(), it.next()) {
                    if q == '\'' {
                        spans.push(Span { start: i, end: i + 1 + n + 1, kind: Kind::Char });
                        i = i + 1 + n + 1;
                        continue;
                    }
                }
                i += 1;
            }
        } else {
            i += 1;
        }
    }
    spans
}

/// Macros whose first string literal is a format string: braces in it are code (placeholders, captured identifiers).
const FORMAT_MACROS: &[&str] = &[
    "print", "println", "eprint", "eprintln", "format", "format_args", "panic", "write", "writeln", "debug", "info", "warn", "error", "trace",
    "log", "todo", "unimplemented", "unreachable", "assert", "debug_assert", "bail", "anyhow", "ensure",
];

/// Is the string literal `s` the format string of a formatting macro (`debug!("..", a)`, `write!(w, "..", a)`)?  It is
/// when the nearest unclosed opening bracket before it (brackets inside literals and comments do not count) follows
/// `name!` with `name` a formatting macro and no other string literal stands between that bracket and `s` at that depth.
pub fn is_format_string(text: &str, spans: &[Span], s: &Span) -> bool {
    let b = text.as_bytes();
    let mut depth = 0usize;
    let mut i = s.start;
    while i > 0 {
        i -= 1;
        if let Some(sp) = spans.iter().find(|sp| sp.start <= i && i < sp.end) {
            if sp.kind == Kind::Str && depth == 0 {
                return false;
            }
            i = sp.start;
            continue;
        }
        match b[i] {
            b')' | b']' | b'}' => depth += 1,
            b'(' | b'[' | b'{' => {
                if depth > 0 {
                    depth -= 1;
                    continue;
                }
                let mut k = i;
                while k > 0 && b[k - 1].is_ascii_whitespace() {
                    k -= 1;
                }
                if k == 0 || b[k - 1] != b'!' {
                    return false;
                }
                k -= 1;
                while k > 0 && b[k - 1].is_ascii_whitespace() {
                    k -= 1;
                }
                let end = k;
                while k > 0 && (b[k - 1].is_ascii_alphanumeric() || b[k - 1] == b'_') {
                    k -= 1;
                }
                return FORMAT_MACROS.contains(&&text[k..end]);
            }
            _ => {}
        }
    }
    false
}

fn literal_value(lit: &str) -> Option<String> {
    syn::parse_str::<syn::LitStr>(lit).ok().map(|l| l.value())
}

/// Is the run of digits around byte offset `at` an integer literal (with an optional unary minus in front, nothing else
/// glued to it) whose value equals the XSD integer numeral `original` ([+-]?digits, surrounding white space allowed)?
fn numeral_literal_equals(text: &str, at: usize, original: &str) -> bool {
    let want = match original.trim().trim_start_matches('+').parse::<i128>() {
        Ok(v) if original.trim().chars().skip(1).all(|c| c.is_ascii_digit()) => v,
        _ => return false,
    };
    let b = text.as_bytes();
    let (mut lo, mut hi) = (at, at);
    while lo > 0 && (b[lo - 1].is_ascii_digit() || b[lo - 1] == b'_') {
        lo -= 1;
    }
    while hi < b.len() && (b[hi].is_ascii_digit() || b[hi] == b'_') {
        hi += 1;
    }
    if lo == hi || (hi < b.len() && (b[hi].is_ascii_alphabetic() || b[hi] == b'.')) {
        return false;
    }
    let digits: String = text[lo..hi].chars().filter(|c| *c != '_').collect();
    let Ok(mut value) = digits.parse::<i128>() else { return false };
    // what stands in front of the digits (white space skipped): `-` negates, `+` or an identifier character spoils it
    let mut k = lo;
    while k > 0 && b[k - 1].is_ascii_whitespace() {
        k -= 1;
    }
    if k > 0 {
        match b[k - 1] {
            b'-' => value = -value,
            b'+' => return false,
            c if c.is_ascii_alphanumeric() || c == b'_' || c == b'.' => return false,
            _ => {}
        }
    }
    value == want
}

/// classify every (case-insensitive) occurrence of `marker` in `text`; `original` is the text the schema supplied
pub fn classify(text: &str, marker: &str, original: &str) -> Vec<Value> {
    let spans = lex(text);
    let lower = text.to_lowercase();
    let m = marker.to_lowercase();
    let mut out = vec![];
    // to_lowercase can change byte offsets for non-ASCII text; search in the original when lengths agree, else in lower
    let hay = if lower.len() == text.len() { &lower } else { text };
    let needle = if lower.len() == text.len() { m.as_str() } else { marker };
    let mut from = 0;
    while let Some(pos) = hay[from..].find(needle) {
        let at = from + pos;
        from = at + needle.len();
        let span = spans.iter().find(|s| s.start <= at && at < s.end);
        let (cls, eq) = match span {
            Some(s) if s.kind == Kind::Str => {
                let lit = &text[s.start..s.end];
                let v = literal_value(lit);
                if is_format_string(text, &spans, s) {
                    // in a format string the text is data only with its braces doubled
                    let doubled = original.replace('{', "{{").replace('}', "}}");
                    ("fmt_str", Value::Bool(v.as_deref().is_some_and(|v| v.contains(&doubled) && (doubled == original || !v.replace(&doubled, "").contains(original)))))
                } else {
                    // data as long as the literal's value carries the text verbatim (a name inside a longer message is data)
                    ("str", Value::Bool(v.as_deref().is_some_and(|v| v.contains(original))))
                }
            }
            Some(s) if s.kind == Kind::DocComment => ("doc_comment", Value::Bool(true)),
            Some(s) if s.kind == Kind::LineComment => ("line_comment", Value::Bool(true)),
            Some(s) if s.kind == Kind::BlockComment => ("block_comment", Value::Bool(true)),
            Some(_) => ("char", Value::Bool(false)),
            // in code position: `value_equal` = the marker is part of a legal Rust integer literal expression (digits,
            // optionally preceded by a unary minus - Rust has no unary plus) whose value is the original numeral's
            None => ("code", Value::Bool(numeral_literal_equals(text, at, original))),
        };
        out.push(json!({"cls": cls, "value_equal": eq, "at": at}));
    }
    out
}
