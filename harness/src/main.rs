//! zv - conformance harness: drives the real zeep code on TLC-generated cases and records traces.
mod absout;
mod cli;
mod concretise;
mod facets;
mod infoset;
mod lexer;
mod multiref;
mod mutate;
mod run;
mod sink;
#[allow(dead_code, unused_imports, clippy::all)]
#[path = "/repo/zeep-lib/src/model/helpers_content.rs"]
pub mod hc;

use std::io::{BufRead, Write};

fn usage() -> ! {
    eprintln!("usage: zv run --cases <file> --out <trace.ndjson> [--progress <file>] [--from <idx>] [--dump-dir <dir>]");
    eprintln!("       zv abstract <file.rs>");
    eprintln!("       zv render --cases <file> --id <n> --dir <dir>");
    std::process::exit(2);
}

fn arg(args: &[String], name: &str) -> Option<String> {
    args.iter().position(|a| a == name).and_then(|i| args.get(i + 1)).cloned()
}

fn main() {
    let args: Vec<String> = std::env::args().collect();
    if args.len() < 2 {
        usage();
    }
    // panics of the code under test are data; keep stderr quiet
    std::panic::set_hook(Box::new(|_| {}));
    match args[1].as_str() {
        "run" => {
            let cases = arg(&args, "--cases").unwrap_or_else(|| usage());
            let out = arg(&args, "--out").unwrap_or_else(|| usage());
            let progress = arg(&args, "--progress");
            let from: usize = arg(&args, "--from").map_or(0, |s| s.parse().unwrap());
            let dump = arg(&args, "--dump-dir");
            let f = std::fs::File::open(&cases).expect("cases file");
            let mut lines = std::io::BufReader::new(f).lines();
            let vocab: serde_json::Value = serde_json::from_str(&lines.next().expect("vocab line").unwrap()).expect("vocab json");
            let voc = concretise::Vocab { v: vocab["vocab"].clone() };
            let fresh = std::fs::metadata(&out).map_or(true, |m| m.len() == 0);
            let mut outf = std::fs::OpenOptions::new().create(true).append(true).open(&out).expect("out file");
            if fresh {
                outf.write_all(format!("{}\n", serde_json::json!({"ev":"vocab","vocab":voc.v})).as_bytes()).unwrap();
            }
            for (idx, line) in lines.enumerate() {
                if idx < from {
                    continue;
                }
                let line = line.unwrap();
                if line.trim().is_empty() {
                    continue;
                }
                if let Some(p) = &progress {
                    std::fs::write(p, idx.to_string()).unwrap();
                }
                let case: serde_json::Value = serde_json::from_str(&line).expect("case json");
                let events = run::run_case(&voc, &case, dump.as_deref());
                let mut buf = String::new();
                for e in events {
                    buf.push_str(&e);
                    buf.push('\n');
                }
                outf.write_all(buf.as_bytes()).unwrap();
                outf.flush().unwrap();
            }
            if let Some(p) = &progress {
                std::fs::write(p, "done").unwrap();
            }
        }
        "digest" => run::digest_main(&args[2]),
        "infoset" => infoset::convert_file(&args[2], &args[3]),
        "abstract" => {
            let text = std::fs::read_to_string(&args[2]).expect("file");
            println!("{}", serde_json::to_string_pretty(&absout::abstract_output(&text)).unwrap());
        }
        "render" => {
            let cases = arg(&args, "--cases").unwrap_or_else(|| usage());
            let id: i64 = arg(&args, "--id").unwrap_or_else(|| usage()).parse().unwrap();
            let dir = arg(&args, "--dir").unwrap_or_else(|| usage());
            let f = std::fs::File::open(&cases).expect("cases file");
            let mut lines = std::io::BufReader::new(f).lines();
            let vocab: serde_json::Value = serde_json::from_str(&lines.next().unwrap().unwrap()).unwrap();
            let voc = concretise::Vocab { v: vocab["vocab"].clone() };
            for line in lines {
                let case: serde_json::Value = serde_json::from_str(&line.unwrap()).unwrap();
                if case["id"].as_i64() == Some(id) {
                    std::fs::create_dir_all(&dir).unwrap();
                    for (n, t) in concretise::render_files(&voc, &case) {
                        std::fs::write(format!("{dir}/{n}"), t).unwrap();
                    }
                    std::fs::write(format!("{dir}/case.json"), serde_json::to_string_pretty(&case).unwrap()).unwrap();
                }
            }
        }
        _ => usage(),
    }
}
