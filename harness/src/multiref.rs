//! C19 driver: probe types written by hand against the unmodified helper source (`crate::hc`), each in a bare
//! variant and in a variant whose members are wrapped in MultiRef; every observation channel is reported for both.
use crate::hc::multi_ref::MultiRef;
use crate::hc::restrictions::{CheckRestrictions, Restrictions};
use crate::hc::error::SoapResult;
use serde_json::{json, Value};
use std::rc::Rc;
use yaserde_derive::{YaDeserialize, YaSerialize};

// the derive macros refer to these names
use std::io::{Read, Write};

#[derive(Debug, Default, Clone, PartialEq, YaSerialize, YaDeserialize)]
#[yaserde(prefix = "p", namespaces = {"p" = "http://zv.test/probe"}, rename = "Leaf")]
pub struct Leaf {
    #[yaserde(text = true)]
    pub value: String,
}
impl CheckRestrictions for Leaf {
    fn check_restrictions(&self, _r: Option<Rc<Restrictions>>) -> SoapResult<()> {
        let own = Some(Rc::new(Restrictions { max_length: Some(5), ..Default::default() }));
        self.value.check_restrictions(own)
    }
}

#[derive(Debug, Default, Clone, PartialEq, YaSerialize, YaDeserialize)]
#[yaserde(prefix = "p", namespaces = {"p" = "http://zv.test/probe"}, rename = "Attrs")]
pub struct Attrs {
    #[yaserde(attribute = true, rename = "id")]
    pub id: String,
    #[yaserde(attribute = true, rename = "n")]
    pub n: Option<i32>,
    #[yaserde(prefix = "p", rename = "label")]
    pub label: String,
}
impl CheckRestrictions for Attrs {
    fn check_restrictions(&self, r: Option<Rc<Restrictions>>) -> SoapResult<()> {
        self.id.check_restrictions(r.clone())?;
        self.label.check_restrictions(r)
    }
}

#[derive(Debug, Default, Clone, PartialEq, YaSerialize, YaDeserialize)]
#[yaserde(prefix = "p", namespaces = {"p" = "http://zv.test/probe"}, rename = "Nested")]
pub struct NestedBare {
    #[yaserde(prefix = "p", rename = "attrs")]
    pub attrs: Attrs,
    #[yaserde(prefix = "p", rename = "leaf")]
    pub leaf: Option<Leaf>,
    #[yaserde(prefix = "p", rename = "item")]
    pub items: Vec<Leaf>,
}
impl CheckRestrictions for NestedBare {
    fn check_restrictions(&self, r: Option<Rc<Restrictions>>) -> SoapResult<()> {
        self.attrs.check_restrictions(r.clone())?;
        self.leaf.check_restrictions(r.clone())?;
        self.items.check_restrictions(r)
    }
}

#[derive(Debug, Default, Clone, YaSerialize, YaDeserialize)]
#[yaserde(prefix = "p", namespaces = {"p" = "http://zv.test/probe"}, rename = "Nested")]
pub struct NestedWrapped {
    #[yaserde(prefix = "p", rename = "attrs")]
    pub attrs: MultiRef<Attrs>,
    #[yaserde(prefix = "p", rename = "leaf")]
    pub leaf: Option<MultiRef<Leaf>>,
    #[yaserde(prefix = "p", rename = "item")]
    pub items: Vec<MultiRef<Leaf>>,
}
impl CheckRestrictions for NestedWrapped {
    fn check_restrictions(&self, r: Option<Rc<Restrictions>>) -> SoapResult<()> {
        self.attrs.check_restrictions(r.clone())?;
        self.leaf.check_restrictions(r.clone())?;
        self.items.check_restrictions(r)
    }
}

#[derive(Debug, Default, Clone, PartialEq, YaSerialize, YaDeserialize)]
#[yaserde(prefix = "p", namespaces = {"p" = "http://zv.test/probe"}, rename = "Tree")]
pub struct TreeBare {
    #[yaserde(prefix = "p", rename = "label")]
    pub label: String,
    #[yaserde(prefix = "p", rename = "Tree")]
    pub children: Vec<TreeBare>,
}
#[derive(Debug, Default, Clone, YaSerialize, YaDeserialize)]
#[yaserde(prefix = "p", namespaces = {"p" = "http://zv.test/probe"}, rename = "Tree")]
pub struct TreeWrapped {
    #[yaserde(prefix = "p", rename = "label")]
    pub label: String,
    #[yaserde(prefix = "p", rename = "Tree")]
    pub children: Vec<MultiRef<TreeWrapped>>,
}

/// the flattened use: a struct whose member is spliced into it (exercises serialize_attributes)
#[derive(Debug, Default, Clone, YaSerialize, YaDeserialize)]
#[yaserde(prefix = "p", namespaces = {"p" = "http://zv.test/probe"}, rename = "Flat")]
pub struct FlatBare {
    #[yaserde(flatten = true)]
    pub inner: Attrs,
}
#[derive(Debug, Default, Clone, YaSerialize, YaDeserialize)]
#[yaserde(prefix = "p", namespaces = {"p" = "http://zv.test/probe"}, rename = "Flat")]
pub struct FlatWrapped {
    #[yaserde(flatten = true)]
    pub inner: MultiRef<Attrs>,
}

/// a type of ANOTHER namespace than the struct it is flattened into: its prefix binding has to be hoisted with its attributes
#[derive(Debug, Default, Clone, PartialEq, YaSerialize, YaDeserialize)]
#[yaserde(prefix = "q", namespaces = {"q" = "http://zv.test/probe/other"}, rename = "Foreign")]
pub struct Foreign {
    #[yaserde(attribute = true, rename = "kind")]
    pub kind: String,
    #[yaserde(prefix = "q", rename = "code")]
    pub code: String,
}
impl CheckRestrictions for Foreign {
    fn check_restrictions(&self, r: Option<Rc<Restrictions>>) -> SoapResult<()> {
        self.kind.check_restrictions(r.clone())?;
        self.code.check_restrictions(r)
    }
}
#[derive(Debug, Default, Clone, YaSerialize, YaDeserialize)]
#[yaserde(prefix = "p", namespaces = {"p" = "http://zv.test/probe"}, rename = "FlatNs")]
pub struct FlatNsBare {
    #[yaserde(flatten = true)]
    pub inner: Foreign,
}
#[derive(Debug, Default, Clone, YaSerialize, YaDeserialize)]
#[yaserde(prefix = "p", namespaces = {"p" = "http://zv.test/probe"}, rename = "FlatNs")]
pub struct FlatNsWrapped {
    #[yaserde(flatten = true)]
    pub inner: MultiRef<Foreign>,
}

fn text(class: &str) -> String {
    match class {
        "empty" => String::new(),
        "escape" => "a<b&c>\"d'".to_string(),
        "nonascii" => "gr\u{f6}\u{df}e \u{20ac}".to_string(),
        _ => "plain".to_string(),
    }
}

fn ser<T: yaserde::YaSerialize>(v: &T) -> String {
    yaserde::ser::to_string(v).unwrap_or_else(|e| format!("ERR:{e}"))
}
/// a sink that accepts a few bytes and then fails, as a connection that is reset does
struct Resetting(usize);
impl std::io::Write for Resetting {
    fn write(&mut self, buf: &[u8]) -> std::io::Result<usize> {
        if self.0 == 0 {
            return Err(std::io::Error::new(std::io::ErrorKind::ConnectionReset, "connection reset"));
        }
        let n = buf.len().min(self.0);
        self.0 -= n;
        Ok(n)
    }
    fn flush(&mut self) -> std::io::Result<()> {
        Ok(())
    }
}
/// serialise into a failing sink first, then normally: a failed attempt must not change what the next one yields
fn ser_after_failure<T: yaserde::YaSerialize>(v: &T) -> String {
    let first = yaserde::ser::serialize_with_writer(v, Resetting(12), &yaserde::ser::Config::default()).is_ok();
    format!("first_ok={first};{}", ser(v))
}
fn de_dbg<T: yaserde::YaDeserialize + std::fmt::Debug>(xml: &str) -> String {
    match yaserde::de::from_str::<T>(xml) {
        Ok(v) => format!("{v:?}"),
        Err(e) => format!("ERR:{e}"),
    }
}
fn chk<T: CheckRestrictions>(v: &T) -> String {
    match v.check_restrictions(None) {
        Ok(()) => "ok".to_string(),
        Err(e) => format!("err:{e}"),
    }
}

/// the verdicts of a sequence of checks of ONE value under changing handed-down restrictions (none, at most one
/// character, none, generous, at most one character): what a referent of a shared value sees over time
fn chk_hist<T: CheckRestrictions>(v: &T) -> String {
    let tight = || Some(Rc::new(Restrictions { max_length: Some(1), ..Default::default() }));
    let loose = || Some(Rc::new(Restrictions { max_length: Some(1000), ..Default::default() }));
    let ctxs: Vec<Option<Rc<Restrictions>>> = vec![None, tight(), None, loose(), tight()];
    ctxs.into_iter()
        .map(|r| if v.check_restrictions(r).is_ok() { "ok" } else { "err" })
        .collect::<Vec<_>>()
        .join(",")
}

fn tree_bare(depth: u64, count: u64, t: &str) -> TreeBare {
    TreeBare { label: t.to_string(), children: if depth == 0 { vec![] } else { (0..count).map(|_| tree_bare(depth - 1, count, t)).collect() } }
}
fn tree_wrapped(depth: u64, count: u64, t: &str) -> TreeWrapped {
    TreeWrapped { label: t.to_string(), children: if depth == 0 { vec![] } else { (0..count).map(|_| MultiRef::new(tree_wrapped(depth - 1, count, t))).collect() } }
}

pub fn run(case: &Value) -> Vec<String> {
    let s = &case["shape"];
    let probe = s["probe"].as_str().unwrap_or("leaf");
    let t = text(s["text"].as_str().unwrap_or("plain"));
    let opt = s["opt"].as_bool().unwrap_or(false);
    let count = s["count"].as_u64().unwrap_or(0);
    let depth = s["depth"].as_u64().unwrap_or(0);
    let attr = s["attr"].as_str() == Some("present");
    let violates = s["violates"].as_bool().unwrap_or(false);
    let mut out = vec![];
    let mut obs = |channel: &str, bare: String, wrapped: String| out.push(json!({"ev":"obs","channel":channel,"bare":bare,"wrapped":wrapped}).to_string());
    let leaf_text = if violates { format!("{t}-much-too-long") } else { t.clone() };
    match probe {
        "leaf" | "restricted" => {
            let bare = Leaf { value: leaf_text.clone() };
            let wrapped = MultiRef::new(bare.clone());
            obs("ser_root", ser(&bare), ser(&wrapped));
            obs("debug", format!("{bare:?}"), format!("{wrapped:?}"));
            obs("check", chk(&bare), chk(&wrapped));
            obs("check_hist", chk_hist(&bare), chk_hist(&wrapped));
            let xml = ser(&bare);
            obs("de_root", de_dbg::<Leaf>(&xml), de_dbg::<MultiRef<Leaf>>(&xml));
            obs("default", format!("{:?}", Leaf::default()), format!("{:?}", MultiRef::<Leaf>::default()));
            let c2 = wrapped.clone();
            obs("clone_shares", "true".to_string(), std::sync::Arc::ptr_eq(&*wrapped, &*c2).to_string());
            // Clone::clone_from is cloning too: into a target nobody else holds, and into the slots of a Vec / an Option
            let mut target = MultiRef::new(Leaf { value: "previous".to_string() });
            target.clone_from(&wrapped);
            obs("clone_from_shares", "true".to_string(), std::sync::Arc::ptr_eq(&*wrapped, &*target).to_string());
            let src = vec![wrapped.clone()];
            let mut dst = vec![MultiRef::new(Leaf { value: "previous".to_string() })];
            dst.clone_from(&src);
            obs("clone_from_vec_shares", "true".to_string(), std::sync::Arc::ptr_eq(&*src[0], &*dst[0]).to_string());
            if probe == "restricted" {
                // inside Option and Vec
                let items: Vec<Leaf> = (0..count).map(|_| bare.clone()).collect();
                let witems: Vec<MultiRef<Leaf>> = (0..count).map(|_| MultiRef::new(bare.clone())).collect();
                obs("check_vec", chk(&items), chk(&witems));
                let o = if opt { Some(bare.clone()) } else { None };
                let wo = if opt { Some(MultiRef::new(bare.clone())) } else { None };
                obs("check_opt", chk(&o), chk(&wo));
            }
        }
        "attrs" => {
            let bare = Attrs { id: t.clone(), n: if attr { Some(-7) } else { None }, label: t.clone() };
            let wrapped = MultiRef::new(bare.clone());
            obs("ser_root", ser(&bare), ser(&wrapped));
            obs("debug", format!("{bare:?}"), format!("{wrapped:?}"));
            obs("check", chk(&bare), chk(&wrapped));
            obs("check_hist", chk_hist(&bare), chk_hist(&wrapped));
            // a clone shares the value; it must not share (or must forward through) anything that changes the verdict
            let shared = wrapped.clone();
            obs("check_hist_clone", chk_hist(&bare), chk_hist(&shared));
            obs("ser_after_failure", ser_after_failure(&bare), ser_after_failure(&wrapped));
            obs("ser_clone_after_failure", ser(&bare), ser(&wrapped.clone()));
            let xml = ser(&bare);
            obs("de_root", de_dbg::<Attrs>(&xml), de_dbg::<MultiRef<Attrs>>(&xml));
            if let Ok(d) = yaserde::de::from_str::<MultiRef<Attrs>>(&xml) {
                obs("check_hist_de", chk_hist(&bare), chk_hist(&d));
            }
            // flattened member: attributes are hoisted through serialize_attributes
            let fb = FlatBare { inner: bare.clone() };
            let fw = FlatWrapped { inner: MultiRef::new(bare.clone()) };
            obs("ser_flatten", ser(&fb), ser(&fw));
            let fxml = ser(&fb);
            obs("de_flatten", de_dbg::<FlatBare>(&fxml).replace("FlatBare", "Flat"), de_dbg::<FlatWrapped>(&fxml).replace("FlatWrapped", "Flat"));
            // flattened member of another namespace: the prefix binding travels with the hoisted attributes
            let foreign = Foreign { kind: t.clone(), code: t.clone() };
            let nb = FlatNsBare { inner: foreign.clone() };
            let nw = FlatNsWrapped { inner: MultiRef::new(foreign.clone()) };
            obs("ser_flatten_ns", ser(&nb), ser(&nw));
            let nxml = ser(&nb);
            obs("de_flatten_ns", de_dbg::<FlatNsBare>(&nxml).replace("FlatNsBare", "FlatNs"), de_dbg::<FlatNsWrapped>(&nxml).replace("FlatNsWrapped", "FlatNs"));
            obs("wellformed_flatten_ns", roxmltree::Document::parse(&ser(&nb)).is_ok().to_string(), roxmltree::Document::parse(&ser(&nw)).is_ok().to_string());
        }
        "nested" => {
            let a = Attrs { id: t.clone(), n: if attr { Some(2_147_483_647) } else { None }, label: t.clone() };
            let l = Leaf { value: t.clone() };
            let bare = NestedBare { attrs: a.clone(), leaf: if opt { Some(l.clone()) } else { None }, items: (0..count).map(|_| l.clone()).collect() };
            let wrapped = NestedWrapped {
                attrs: MultiRef::new(a.clone()),
                leaf: if opt { Some(MultiRef::new(l.clone())) } else { None },
                items: (0..count).map(|_| MultiRef::new(l.clone())).collect(),
            };
            obs("ser_field", ser(&bare), ser(&wrapped));
            obs("debug_field", format!("{bare:?}").replace("NestedBare", "Nested"), format!("{wrapped:?}").replace("NestedWrapped", "Nested"));
            obs("check_field", chk(&bare), chk(&wrapped));
            obs("check_hist_field", chk_hist(&bare), chk_hist(&wrapped));
            obs("ser_field_after_failure", ser_after_failure(&bare), ser_after_failure(&wrapped));
            let xml = ser(&bare);
            obs("de_field", de_dbg::<NestedBare>(&xml).replace("NestedBare", "Nested"), de_dbg::<NestedWrapped>(&xml).replace("NestedWrapped", "Nested"));
            obs("default_field", format!("{:?}", NestedBare::default()).replace("NestedBare", "Nested"), format!("{:?}", NestedWrapped::default()).replace("NestedWrapped", "Nested"));
        }
        _ => {
            let bare = tree_bare(depth, count, &t);
            let wrapped = tree_wrapped(depth, count, &t);
            obs("ser_tree", ser(&bare), ser(&wrapped));
            obs("debug_tree", format!("{bare:?}").replace("TreeBare", "Tree"), format!("{wrapped:?}").replace("TreeWrapped", "Tree"));
            let xml = ser(&bare);
            obs("de_tree", de_dbg::<TreeBare>(&xml).replace("TreeBare", "Tree"), de_dbg::<TreeWrapped>(&xml).replace("TreeWrapped", "Tree"));
            let root = MultiRef::new(wrapped);
            obs("ser_tree_root", ser(&bare), ser(&root));
        }
    }
    out
}
