//! Concretiser: abstract schema set (JSON printed by TLC) -> file texts.
//! Trusted base: this is a dumb renderer; it contains no expectations about zeep.

use serde_json::Value;

pub struct Vocab {
    pub v: Value,
}

impl Vocab {
    pub fn name_xml(&self, id: &str) -> String {
        self.v["names"][id]["xml"].as_str().unwrap_or(id).to_string()
    }
    pub fn uri(&self, id: &str) -> String {
        self.v["uris"][id]["uri"].as_str().unwrap_or(id).to_string()
    }
    /// `urn+<id>` / `query+<id>`: the text of <id> inside a URL of a non-hierarchical scheme / in the query and fragment
    /// of an http URL (the places where a URL parser leaves quotes and backslashes alone)
    pub fn text(&self, id: &str) -> String {
        if let Some(rest) = id.strip_prefix("urn+") {
            return format!("urn:zv:{}", self.text(rest));
        }
        if let Some(rest) = id.strip_prefix("query+") {
            let t = self.text(rest);
            return format!("http://zv.test/c14/svc?x={t}#{t}");
        }
        self.v["texts"][id].as_str().unwrap_or(id).to_string()
    }
}

pub fn xml_esc(s: &str) -> String {
    let mut o = String::new();
    for c in s.chars() {
        match c {
            '&' => o.push_str("&amp;"),
            '<' => o.push_str("&lt;"),
            '>' => o.push_str("&gt;"),
            '"' => o.push_str("&quot;"),
            '\n' => o.push_str("&#10;"),
            '\r' => o.push_str("&#13;"),
            '\t' => o.push_str("&#9;"),
            c => o.push(c),
        }
    }
    o
}

/// text content: keep newlines literal, but CR must be a character reference
pub fn xml_esc_text(s: &str) -> String {
    let mut o = String::new();
    for c in s.chars() {
        match c {
            '&' => o.push_str("&amp;"),
            '<' => o.push_str("&lt;"),
            '>' => o.push_str("&gt;"),
            '\r' => o.push_str("&#13;"),
            c => o.push(c),
        }
    }
    o
}

fn s<'a>(v: &'a Value, k: &str) -> Option<&'a str> {
    v.get(k).and_then(Value::as_str)
}

fn arr<'a>(v: &'a Value, k: &str) -> &'a [Value] {
    v.get(k).and_then(Value::as_array).map_or(&[], Vec::as_slice)
}

/// a type/base/ref reference: {"k":"builtin","n":"string"} | {"k":"named","p":"t","n":"N1"} | {"k":"raw","q":"text"}
fn qname(voc: &Vocab, v: &Value) -> String {
    match s(v, "k") {
        Some("builtin") => format!("xs:{}", s(v, "n").unwrap_or("string")),
        Some("raw") => s(v, "q").unwrap_or("").to_string(),
        _ => {
            let p = s(v, "p").unwrap_or("");
            let n = voc.name_xml(s(v, "n").unwrap_or(""));
            if p.is_empty() { n } else { format!("{p}:{n}") }
        }
    }
}

fn occ(v: &Value) -> String {
    let mut o = String::new();
    if let Some(m) = v.get("min") {
        if let Some(i) = m.as_i64() {
            if i != 1 || v.get("minx").is_some() {
                o.push_str(&format!(" minOccurs=\"{i}\""));
            }
        } else if let Some(t) = m.as_str() {
            o.push_str(&format!(" minOccurs=\"{}\"", xml_esc(t)));
        }
    }
    if let Some(m) = v.get("max") {
        let t = match m {
            Value::String(t) => t.clone(),
            Value::Number(n) => n.to_string(),
            _ => "1".to_string(),
        };
        let t = match t.as_str() {
            "unb" => "unbounded".to_string(),
            "n" => "3".to_string(),
            o => o.to_string(),
        };
        if t != "1" || v.get("maxx").is_some() {
            o.push_str(&format!(" maxOccurs=\"{}\"", xml_esc(&t)));
        }
    }
    o
}

fn xmlns_attrs(voc: &Vocab, v: &Value) -> String {
    let mut o = String::new();
    for d in arr(v, "xmlns") {
        let p = d[0].as_str().unwrap_or("");
        let u = voc.uri(d[1].as_str().unwrap_or(""));
        if p.is_empty() {
            o.push_str(&format!(" xmlns=\"{}\"", xml_esc(&u)));
        } else {
            o.push_str(&format!(" xmlns:{p}=\"{}\"", xml_esc(&u)));
        }
    }
    o
}

fn doc_el(voc: &Vocab, v: &Value, ind: &str) -> String {
    match s(v, "doc") {
        Some(d) => format!(
            "{ind}<xs:annotation><xs:documentation>{}</xs:documentation></xs:annotation>\n",
            xml_esc_text(&voc.text(d))
        ),
        None => String::new(),
    }
}

fn particle(voc: &Vocab, p: &Value, ind: usize, out: &mut String) {
    let pad = " ".repeat(ind);
    match s(p, "k") {
        Some("el") => {
            let ty = p.get("ty").filter(|t| t.get("k").is_some()).map_or(String::new(), |t| format!(" type=\"{}\"", xml_esc(&qname(voc, t))));
            let form = s(p, "form").map_or(String::new(), |f| format!(" form=\"{f}\""));
            out.push_str(&format!(
                "{pad}<xs:element name=\"{}\"{ty}{}{form}/>\n",
                xml_esc(&voc.name_xml(s(p, "n").unwrap_or(""))),
                occ(p)
            ));
        }
        Some("ref") => {
            out.push_str(&format!(
                "{pad}<xs:element ref=\"{}\"{}/>\n",
                xml_esc(&qname(voc, &p["ref"])),
                occ(p)
            ));
        }
        Some("any") => {
            out.push_str(&format!("{pad}<xs:any processContents=\"skip\"{}/>\n", occ(p)));
        }
        Some(k @ ("seq" | "choice" | "all")) => {
            let tag = match k {
                "seq" => "sequence",
                "choice" => "choice",
                _ => "all",
            };
            out.push_str(&format!("{pad}<xs:{tag}{}>\n", occ(p)));
            // `doc`: an xs:annotation as first child of the group (allowed by XSD in every model group)
            out.push_str(&doc_el(voc, p, &" ".repeat(ind + 2)));
            for c in arr(p, "ps") {
                particle(voc, c, ind + 2, out);
            }
            out.push_str(&format!("{pad}</xs:{tag}>\n"));
        }
        _ => {}
    }
}

fn attribute(voc: &Vocab, a: &Value, ind: usize, out: &mut String) {
    let pad = " ".repeat(ind);
    let us = match s(a, "use") {
        Some("req") => " use=\"required\"",
        Some("opt") => " use=\"optional\"",
        _ => "",
    };
    out.push_str(&format!(
        "{pad}<xs:attribute name=\"{}\" type=\"{}\"{us}/>\n",
        xml_esc(&voc.name_xml(s(a, "n").unwrap_or(""))),
        xml_esc(&qname(voc, &a["ty"]))
    ));
}

/// body of a complexType (content + attributes), shared by named types and anonymous element types
fn complex_body(voc: &Vocab, c: &Value, ind: usize, out: &mut String) {
    let pad = " ".repeat(ind);
    let has_base = c.get("base").is_some_and(|b| b.get("k").is_some());
    if has_base {
        out.push_str(&format!("{pad}<xs:complexContent>\n{pad}  <xs:extension base=\"{}\">\n", xml_esc(&qname(voc, &c["base"]))));
        // `ext_doc`: an xs:annotation as first child of xs:extension
        if let Some(d) = s(c, "ext_doc") {
            out.push_str(&format!(
                "{pad}    <xs:annotation><xs:documentation>{}</xs:documentation></xs:annotation>\n",
                xml_esc_text(&voc.text(d))
            ));
        }
        for p in arr(c, "content") {
            particle(voc, p, ind + 4, out);
        }
        for a in arr(c, "attrs") {
            attribute(voc, a, ind + 4, out);
        }
        out.push_str(&format!("{pad}  </xs:extension>\n{pad}</xs:complexContent>\n"));
    } else {
        for p in arr(c, "content") {
            particle(voc, p, ind, out);
        }
        for a in arr(c, "attrs") {
            attribute(voc, a, ind, out);
        }
    }
}

fn facet_tag(f: &str) -> &str {
    match f {
        "minInc" => "minInclusive",
        "maxInc" | "maxIncPlus" => "maxInclusive",
        "minLenPlus" => "minLength",
        "minExc" => "minExclusive",
        "maxExc" => "maxExclusive",
        "len" => "length",
        "minLen" => "minLength",
        "maxLen" => "maxLength",
        "enum" => "enumeration",
        o => o,
    }
}

fn item(voc: &Vocab, it: &Value, out: &mut String) {
    match s(it, "k") {
        Some("import") => {
            let ns = it.get("ns").and_then(Value::as_str).map_or(String::new(), |u| format!(" namespace=\"{}\"", xml_esc(&voc.uri(u))));
            let loc = it.get("loc").and_then(Value::as_str).map_or(String::new(), |l| format!(" schemaLocation=\"{}\"", xml_esc(l)));
            out.push_str(&format!("  <xs:import{ns}{loc}/>\n"));
        }
        Some("complex") => {
            out.push_str(&format!(
                "  <xs:complexType name=\"{}\"{}>\n",
                xml_esc(&voc.name_xml(s(it, "n").unwrap_or(""))),
                xmlns_attrs(voc, it)
            ));
            out.push_str(&doc_el(voc, it, "    "));
            complex_body(voc, it, 4, out);
            out.push_str("  </xs:complexType>\n");
        }
        Some("simple") => {
            out.push_str(&format!(
                "  <xs:simpleType name=\"{}\"{}>\n",
                xml_esc(&voc.name_xml(s(it, "n").unwrap_or(""))),
                xmlns_attrs(voc, it)
            ));
            out.push_str(&doc_el(voc, it, "    "));
            out.push_str(&format!("    <xs:restriction base=\"{}\">\n", xml_esc(&qname(voc, &it["base"]))));
            for f in arr(it, "facets") {
                let tag = facet_tag(f[0].as_str().unwrap_or(""));
                match &f[1] {
                    Value::Null => out.push_str(&format!("      <xs:{tag}/>\n")),
                    Value::Number(n) if f[0].as_str().is_some_and(|k| k.ends_with("Plus")) => out.push_str(&format!("      <xs:{tag} value=\"+{n}\"/>\n")),
                    Value::Number(n) => out.push_str(&format!("      <xs:{tag} value=\"{n}\"/>\n")),
                    Value::String(t) => out.push_str(&format!("      <xs:{tag} value=\"{}\"/>\n", xml_esc(&voc.text(t)))),
                    _ => {}
                }
            }
            out.push_str("    </xs:restriction>\n  </xs:simpleType>\n");
        }
        Some("element") => {
            let name = xml_esc(&voc.name_xml(s(it, "n").unwrap_or("")));
            let xm = xmlns_attrs(voc, it);
            if let Some(t) = it.get("ty").filter(|t| t.get("k").is_some()) {
                out.push_str(&format!("  <xs:element name=\"{name}\" type=\"{}\"{xm}/>\n", xml_esc(&qname(voc, t))));
            } else if let Some(c) = it.get("inline").filter(|t| t.get("content").is_some()) {
                out.push_str(&format!("  <xs:element name=\"{name}\"{xm}>\n    <xs:complexType{}>\n", xmlns_attrs(voc, c)));
                out.push_str(&doc_el(voc, c, "      "));
                complex_body(voc, c, 6, out);
                out.push_str("    </xs:complexType>\n  </xs:element>\n");
            } else {
                out.push_str(&format!("  <xs:element name=\"{name}\"{xm}/>\n"));
            }
        }
        Some("rawxml") => {
            out.push_str(s(it, "xml").unwrap_or(""));
            out.push('\n');
        }
        _ => {}
    }
}

fn schema_open(voc: &Vocab, f: &Value, ind: &str, with_xs: bool) -> String {
    let tns = f.get("tns").and_then(Value::as_str).map_or(String::new(), |u| format!(" targetNamespace=\"{}\"", xml_esc(&voc.uri(u))));
    let xs = if with_xs { " xmlns:xs=\"http://www.w3.org/2001/XMLSchema\"" } else { "" };
    let form = if f.get("unqualified").is_some() { "" } else { " elementFormDefault=\"qualified\"" };
    format!("{ind}<xs:schema{xs}{}{tns}{form}>\n", xmlns_attrs(voc, f))
}

fn xsd_file(voc: &Vocab, f: &Value) -> String {
    let mut out = String::from("<?xml version=\"1.0\" encoding=\"UTF-8\"?>\n");
    out.push_str(&schema_open(voc, f, "", true));
    for it in arr(f, "items") {
        item(voc, it, &mut out);
    }
    out.push_str("</xs:schema>\n");
    out
}

fn soap_io(voc: &Vocab, tag: &str, io: &Value, out: &mut String) {
    soap_io_p(voc, tag, io, "soap", out);
}

fn soap_io_p(voc: &Vocab, tag: &str, io: &Value, sp: &str, out: &mut String) {
    out.push_str(&format!("      <wsdl:{tag}>\n"));
    let us = s(io, "use").unwrap_or("literal");
    // `hfirst`: how many of the soap:header children precede soap:body (WSDL does not fix their order)
    let hfirst = io.get("hfirst").and_then(Value::as_u64).unwrap_or(0) as usize;
    let header = |h: &Value| {
        format!(
            "        <{sp}:header message=\"tns:{}\" part=\"{}\" use=\"literal\"/>\n",
            xml_esc(&voc.name_xml(s(h, "msg").unwrap_or(""))),
            xml_esc(&voc.name_xml(s(h, "part").unwrap_or("")))
        )
    };
    for h in arr(io, "headers").iter().take(hfirst) {
        out.push_str(&header(h));
    }
    match io.get("parts").and_then(Value::as_str) {
        Some(p) => out.push_str(&format!("        <{sp}:body use=\"{us}\" parts=\"{}\"/>\n", xml_esc(&voc.name_xml(p)))),
        None => out.push_str(&format!("        <{sp}:body use=\"{us}\"/>\n")),
    }
    for h in arr(io, "headers").iter().skip(hfirst) {
        out.push_str(&header(h));
    }
    out.push_str(&format!("      </wsdl:{tag}>\n"));
}

fn wsdl_file(voc: &Vocab, f: &Value, all: &[Value]) -> String {
    let w = &f["wsdl"];
    let tns_uri = f.get("tns").and_then(Value::as_str).map(|u| voc.uri(u)).unwrap_or_default();
    let mut out = String::from("<?xml version=\"1.0\" encoding=\"UTF-8\"?>\n");
    out.push_str(&format!(
        "<wsdl:definitions xmlns:wsdl=\"http://schemas.xmlsoap.org/wsdl/\" xmlns:soap=\"http://schemas.xmlsoap.org/wsdl/soap/\" xmlns:soap12=\"http://schemas.xmlsoap.org/wsdl/soap12/\" xmlns:xs=\"http://www.w3.org/2001/XMLSchema\" xmlns:tns=\"{}\"{} targetNamespace=\"{}\">\n",
        xml_esc(&tns_uri),
        xmlns_attrs(voc, f),
        xml_esc(&tns_uri)
    ));
    out.push_str("  <wsdl:types>\n");
    // inline schema: its own tns may differ (field "stns"), default = wsdl tns
    let mut sf = f.clone();
    if let Some(st) = f.get("stns") {
        sf["tns"] = st.clone();
    }
    sf["xmlns"] = Value::Array(vec![]);
    out.push_str(&schema_open(voc, &sf, "  ", false));
    for it in arr(f, "items") {
        item(voc, it, &mut out);
    }
    out.push_str("  </xs:schema>\n");
    // further inline schemas: file records of kind "inline" whose parent is this WSDL
    for g in all.iter().filter(|g| s(g, "kind") == Some("inline") && s(g, "parent") == s(f, "name")) {
        out.push_str(&schema_open(voc, g, "  ", false));
        for it in arr(g, "items") {
            item(voc, it, &mut out);
        }
        out.push_str("  </xs:schema>\n");
    }
    out.push_str("  </wsdl:types>\n");
    for m in arr(w, "messages") {
        out.push_str(&format!("  <wsdl:message name=\"{}\">\n", xml_esc(&voc.name_xml(s(m, "n").unwrap_or("")))));
        for p in arr(m, "parts") {
            out.push_str(&format!(
                "    <wsdl:part name=\"{}\" element=\"{}\"/>\n",
                xml_esc(&voc.name_xml(s(p, "n").unwrap_or(""))),
                xml_esc(&qname(voc, &p["el"]))
            ));
        }
        out.push_str("  </wsdl:message>\n");
    }
    let pt = s(w, "portType").unwrap_or("PortT");
    out.push_str(&format!("  <wsdl:portType name=\"{}\">\n", xml_esc(&voc.name_xml(pt))));
    for o in arr(w, "ops") {
        out.push_str(&format!("    <wsdl:operation name=\"{}\">\n", xml_esc(&voc.name_xml(s(o, "n").unwrap_or("")))));
        out.push_str(&format!("      <wsdl:input message=\"tns:{}\"/>\n", xml_esc(&voc.name_xml(s(&o["input"], "msg").unwrap_or("")))));
        if let Some(om) = o.get("output").filter(|x| !x.is_null()) {
            out.push_str(&format!("      <wsdl:output message=\"tns:{}\"/>\n", xml_esc(&voc.name_xml(s(om, "msg").unwrap_or("")))));
        }
        out.push_str("    </wsdl:operation>\n");
    }
    out.push_str("  </wsdl:portType>\n");
    let bn = s(w, "binding").unwrap_or("BindT");
    // `second_binding`: "before" | "after" - a SOAP 1.2 binding of the same port type next to the SOAP 1.1 one (what
    // .NET and many other stacks publish); `port12_first`: its port is the first port of the service
    // `legacy_binding`: "before" | "after" - another SOAP 1.1 binding of the same port type that NO port of the service
    // refers to and that binds the body part only (no soap:header): it must not replace the binding the service uses
    let body_only = |io: &Value| -> Value {
        let mname = s(io, "msg").unwrap_or("");
        let named: Vec<&str> = arr(io, "headers").iter().filter_map(|h| s(h, "part")).collect();
        let body = io.get("parts").and_then(Value::as_str).map(str::to_string).or_else(|| {
            arr(w, "messages")
                .iter()
                .find(|m| s(m, "n") == Some(mname) || s(m, "name") == Some(mname))
                .and_then(|m| arr(m, "parts").iter().filter_map(|p| s(p, "n").or_else(|| s(p, "name"))).find(|p| !named.contains(p)).map(str::to_string))
        });
        match body {
            Some(b) => serde_json::json!({"msg": mname, "parts": b, "headers": []}),
            None => serde_json::json!({"msg": mname, "headers": []}),
        }
    };
    let binding_of = |name: &str, sp: &str, legacy: bool| -> String {
        let mut out = format!(
            "  <wsdl:binding name=\"{}\" type=\"tns:{}\">\n    <{sp}:binding style=\"document\" transport=\"http://schemas.xmlsoap.org/soap/http\"/>\n",
            xml_esc(name),
            xml_esc(&voc.name_xml(pt))
        );
        for o in arr(w, "ops") {
            out.push_str(&format!("    <wsdl:operation name=\"{}\">\n", xml_esc(&voc.name_xml(s(o, "n").unwrap_or("")))));
            match o.get("action") {
                Some(Value::String(a)) => out.push_str(&format!("      <{sp}:operation soapAction=\"{}\"/>\n", xml_esc(&voc.text(a)))),
                _ => out.push_str(&format!("      <{sp}:operation soapAction=\"\"/>\n")),
            }
            if legacy {
                soap_io_p(voc, "input", &body_only(&o["input"]), sp, &mut out);
            } else {
                soap_io_p(voc, "input", &o["input"], sp, &mut out);
            }
            if let Some(om) = o.get("output").filter(|x| !x.is_null()) {
                if legacy {
                    soap_io_p(voc, "output", &body_only(om), sp, &mut out);
                } else {
                    soap_io_p(voc, "output", om, sp, &mut out);
                }
            }
            out.push_str("    </wsdl:operation>\n");
        }
        out.push_str("  </wsdl:binding>\n");
        out
    };
    let binding = |name: &str, sp: &str| binding_of(name, sp, false);
    let b11 = voc.name_xml(bn);
    let b12 = format!("{b11}12");
    let second = s(w, "second_binding");
    let legacy = s(w, "legacy_binding");
    let blegacy = format!("{b11}Legacy");
    if legacy == Some("before") {
        out.push_str(&binding_of(&blegacy, "soap", true));
    }
    if second == Some("before") {
        out.push_str(&binding(&b12, "soap12"));
    }
    out.push_str(&binding(&b11, "soap"));
    if second == Some("after") {
        out.push_str(&binding(&b12, "soap12"));
    }
    if legacy == Some("after") {
        out.push_str(&binding_of(&blegacy, "soap", true));
    }
    let sn = s(w, "service").unwrap_or("Svc");
    let addr = s(w, "address").map_or("http://127.0.0.1:1/svc".to_string(), |a| voc.text(a));
    let port = |suffix: &str, b: &str, sp: &str| {
        format!(
            "    <wsdl:port name=\"{}Port{suffix}\" binding=\"tns:{}\">\n      <{sp}:address location=\"{}\"/>\n    </wsdl:port>\n",
            xml_esc(&voc.name_xml(sn)),
            xml_esc(b),
            xml_esc(&addr)
        )
    };
    out.push_str(&format!("  <wsdl:service name=\"{}\">\n", xml_esc(&voc.name_xml(sn))));
    let p12_first = w.get("port12_first").and_then(Value::as_bool).unwrap_or(false);
    if second.is_some() && p12_first {
        out.push_str(&port("12", &b12, "soap12"));
    }
    out.push_str(&port("", &b11, "soap"));
    if second.is_some() && !p12_first {
        out.push_str(&port("12", &b12, "soap12"));
    }
    out.push_str("  </wsdl:service>\n");
    out.push_str("</wsdl:definitions>\n");
    out
}

/// returns (file name, text) for every file of the case, in the order given
pub fn render_files(voc: &Vocab, case: &Value) -> Vec<(String, String)> {
    let all = arr(case, "files");
    all.iter()
        .filter(|f| s(f, "kind") != Some("inline"))
        .map(|f| {
            let name = s(f, "name").unwrap_or("f.xsd").to_string();
            let text = match s(f, "kind") {
                Some("wsdl") => wsdl_file(voc, f, all),
                Some("raw") => voc.text(s(f, "text").unwrap_or("")),
                _ => xsd_file(voc, f),
            };
            (name, text)
        })
        .collect()
}
