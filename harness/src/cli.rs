//! C17 driver: runs the built zeep binary in scratch directories, one run per (scenario, working directory).
use serde_json::{json, Value};
use std::collections::BTreeSet;
use std::panic::{catch_unwind, AssertUnwindSafe};
use std::path::{Path, PathBuf};
use zeep_lib::reader::{WriteXml, XmlReader};

const GOOD_XSD: &str = r#"<?xml version="1.0" encoding="UTF-8"?>
<xs:schema xmlns:xs="http://www.w3.org/2001/XMLSchema" xmlns:t="http://zv.test/c17/main" xmlns:o="http://zv.test/c17/types" targetNamespace="http://zv.test/c17/main" elementFormDefault="qualified">
  <xs:import namespace="http://zv.test/c17/types" schemaLocation="types.xsd"/>
  <xs:complexType name="OrderType">
    <xs:sequence>
      <xs:element name="id" type="xs:string"/>
      <xs:element name="amount" type="o:AmountType" minOccurs="0"/>
      <xs:element name="note" type="xs:string" minOccurs="0" maxOccurs="unbounded"/>
    </xs:sequence>
    <xs:attribute name="version" type="xs:int" use="required"/>
  </xs:complexType>
  <xs:element name="Order" type="t:OrderType"/>
</xs:schema>
"#;
const TYPES_XSD: &str = r#"<?xml version="1.0" encoding="UTF-8"?>
<xs:schema xmlns:xs="http://www.w3.org/2001/XMLSchema" xmlns:o="http://zv.test/c17/types" targetNamespace="http://zv.test/c17/types" elementFormDefault="qualified">
  <xs:simpleType name="AmountType"><xs:restriction base="xs:int"><xs:minInclusive value="0"/></xs:restriction></xs:simpleType>
</xs:schema>
"#;
const ENCODED_WSDL: &str = r#"<?xml version="1.0" encoding="UTF-8"?>
<wsdl:definitions xmlns:wsdl="http://schemas.xmlsoap.org/wsdl/" xmlns:soap="http://schemas.xmlsoap.org/wsdl/soap/" xmlns:xs="http://www.w3.org/2001/XMLSchema" xmlns:tns="http://zv.test/c17/svc" targetNamespace="http://zv.test/c17/svc">
  <wsdl:types><xs:schema targetNamespace="http://zv.test/c17/svc" elementFormDefault="qualified">
    <xs:element name="Ping"><xs:complexType><xs:sequence><xs:element name="x" type="xs:string"/></xs:sequence></xs:complexType></xs:element>
  </xs:schema></wsdl:types>
  <wsdl:message name="PingIn"><wsdl:part name="parameters" element="tns:Ping"/></wsdl:message>
  <wsdl:portType name="P"><wsdl:operation name="Ping"><wsdl:input message="tns:PingIn"/></wsdl:operation></wsdl:portType>
  <wsdl:binding name="B" type="tns:P"><soap:binding style="rpc" transport="http://schemas.xmlsoap.org/soap/http"/>
    <wsdl:operation name="Ping"><soap:operation soapAction=""/><wsdl:input><soap:body use="encoded"/></wsdl:input></wsdl:operation>
  </wsdl:binding>
  <wsdl:service name="S"><wsdl:port name="SP" binding="tns:B"><soap:address location="http://127.0.0.1:9/s"/></wsdl:port></wsdl:service>
</wsdl:definitions>
"#;

fn list_files(root: &Path, out: &mut BTreeSet<PathBuf>) {
    if let Ok(rd) = std::fs::read_dir(root) {
        for e in rd.filter_map(Result::ok) {
            let p = e.path();
            if p.is_dir() {
                list_files(&p, out);
            } else {
                out.insert(p);
            }
        }
    }
}

/// What the library makes of the CONTENTS of the input's directory: the files are collected here (following symbolic
/// links, as any reader of the contents does) and registered by name - utils.rs is not involved, so it is judged too.
fn lib_run(input: &Path) -> (String, Vec<u8>) {
    let r = catch_unwind(AssertUnwindSafe(|| -> Result<Vec<u8>, String> {
        let start = input.file_name().and_then(|n| n.to_str()).ok_or("no file name")?.to_string();
        let text = std::fs::read_to_string(input).map_err(|e| e.to_string())?;
        let mut files = vec![(start.clone(), text)];
        let dir = input.parent().ok_or("no parent")?;
        let mut names: Vec<PathBuf> = std::fs::read_dir(dir).map_err(|e| e.to_string())?.filter_map(Result::ok).map(|e| e.path()).collect();
        names.sort();
        for p in names {
            let is_file = std::fs::metadata(&p).map(|m| m.is_file()).unwrap_or(false);
            let name = p.file_name().and_then(|n| n.to_str()).unwrap_or("").to_string();
            if is_file && name.ends_with(".xsd") && name != start {
                if let Ok(t) = std::fs::read_to_string(&p) {
                    files.push((name, t));
                }
            }
        }
        let ftr = crate::run::build_files(&files, None, &start);
        let doc = XmlReader::read_xml(&ftr).map_err(|e| e.to_string())?;
        let mut buf = vec![];
        doc.write_xml(&mut buf).map_err(|e| e.to_string())?;
        Ok(buf)
    }));
    match r {
        Ok(Ok(b)) => ("ok".to_string(), b),
        Ok(Err(_)) => ("err".to_string(), vec![]),
        Err(_) => ("panic".to_string(), vec![]),
    }
}

pub fn run(case: &Value) -> Vec<String> {
    let mut events = vec![];
    let scn = &case["scn"];
    let spelling = scn["spelling"].as_str().unwrap_or("abs");
    let outsel = scn["out"].as_str().unwrap_or("default");
    let pre = scn["pre"].as_str().unwrap_or("absent");
    let fail = scn["fail"].as_str().unwrap_or("none");
    let bin = std::env::var("ZV_ZEEP_BIN").unwrap_or_else(|_| "/verif/build/zeep_target/debug/zeep".to_string());
    let scratch = std::env::var("ZV_SCRATCH").unwrap_or_else(|_| "/verif/build/scratch".to_string());
    for cwd_kind in ["indir", "parent", "elsewhere"] {
        if spelling == "bare" && cwd_kind != "indir" {
            continue;
        }
        let root = PathBuf::from(format!("{scratch}/c17/{}_{}_{}", std::process::id(), case["id"], cwd_kind));
        let _ = std::fs::remove_dir_all(&root);
        let indir = root.join("work").join("in");
        let outdir = root.join("work").join("outdir");
        let elsewhere = root.join("elsewhere");
        for d in [&indir, &outdir, &elsewhere] {
            std::fs::create_dir_all(d).unwrap();
        }
        // inputs
        let mut input_name = "schema.xsd";
        match fail {
            "bad_xml" => std::fs::write(indir.join("schema.xsd"), &GOOD_XSD[..GOOD_XSD.len() / 2]).unwrap(),
            "unresolved_import" => std::fs::write(indir.join("schema.xsd"), GOOD_XSD.replace("types.xsd", "nowhere.xsd")).unwrap(),
            "unsupported_binding" => {
                input_name = "svc.wsdl";
                std::fs::write(indir.join("svc.wsdl"), ENCODED_WSDL).unwrap();
            }
            "unsupported_binding_parts" => {
                // the same encoded body, naming its part: still not a literal binding
                input_name = "svc.wsdl";
                let w = ENCODED_WSDL
                    .replace("<soap:body use=\"encoded\"/>", "<soap:body use=\"encoded\" parts=\"parameters\"/>")
                    .replace("style=\"rpc\"", "style=\"document\"");
                std::fs::write(indir.join("svc.wsdl"), w).unwrap();
            }
            "missing_input" => {}
            _ => std::fs::write(indir.join("schema.xsd"), GOOD_XSD).unwrap(),
        }
        if fail == "reachable_unreadable" {
            std::fs::write(indir.join("types.xsd"), [0xffu8, 0xfe, 0x00, 0xd8, 0x3c]).unwrap();
        } else {
            std::fs::write(indir.join("types.xsd"), TYPES_XSD).unwrap();
        }
        let input_abs = indir.join(input_name);
        // same contents, other storage: the sibling / the input becomes a symbolic link to a regular file kept elsewhere
        let sib = scn["sib"].as_str().unwrap_or("regular");
        let link = |name: &str| {
            let here = indir.join(name);
            if here.is_file() {
                let real = elsewhere.join(format!("real_{name}"));
                std::fs::rename(&here, &real).unwrap();
                std::os::unix::fs::symlink(&real, &here).unwrap();
            }
        };
        match sib {
            "import_cycle" => {
                // the sibling imports the input back: the reader then asks for the input by its bare name
                if indir.join("types.xsd").is_file() && fail != "reachable_unreadable" {
                    let back = TYPES_XSD.replace(
                        "  <xs:simpleType",
                        "  <xs:import namespace=\"http://zv.test/c17/main\" schemaLocation=\"schema.xsd\"/>\n  <xs:simpleType",
                    );
                    std::fs::write(indir.join("types.xsd"), back).unwrap();
                }
            }
            "symlink_sibling" => link("types.xsd"),
            "symlink_input" => link(input_name),
            _ => {}
        }
        // output
        let out_abs = match outsel {
            "explicit_same" => indir.join("custom_out.rs"),
            "explicit_other" => {
                if fail == "out_dir_missing" { root.join("work").join("no_such_dir").join("gen.rs") } else { outdir.join("gen.rs") }
            }
            _ => input_abs.with_extension("rs"),
        };
        if fail == "out_dir_missing" && outsel != "explicit_other" {
            // only meaningful with an explicit output elsewhere: treat as no failure for the other output choices
        }
        // what the library makes of the files (needed early: some pre-existing outputs are built from it)
        let (lib, lib_bytes) = lib_run(&input_abs);
        let old: Vec<u8> = match pre {
            "empty" => vec![],
            "prefix_of_new" if lib == "ok" => lib_bytes[..lib_bytes.len() / 2].to_vec(),
            "new_plus_tail" if lib == "ok" => {
                let mut v = lib_bytes.clone();
                v.extend_from_slice(b"\n// END-OF-OLD-MARKER left over from a longer file\n");
                v
            }
            "prefix_of_new" | "new_plus_tail" => b"// old output of a failing input\n".to_vec(),
            "shorter" => b"// old output\n".to_vec(),
            "longer" => {
                let mut v = b"// old, longer output\n".to_vec();
                v.extend(std::iter::repeat(b'x').take(300_000));
                v.extend_from_slice(b"\n// END-OF-OLD-MARKER\n");
                v
            }
            _ => vec![],
        };
        let has_parent = out_abs.parent().is_some_and(Path::is_dir);
        if pre != "absent" && has_parent {
            std::fs::write(&out_abs, &old).unwrap();
        }
        let mut before = BTreeSet::new();
        list_files(&root, &mut before);
        // working directory and spelling
        let cwd = match cwd_kind {
            "indir" => indir.clone(),
            "parent" => root.join("work"),
            _ => elsewhere.clone(),
        };
        let rel = |target: &Path| -> String {
            match cwd_kind {
                "indir" => format!("../in/{}", target.file_name().unwrap().to_string_lossy()),
                "parent" => format!("in/{}", target.file_name().unwrap().to_string_lossy()),
                _ => format!("../work/in/{}", target.file_name().unwrap().to_string_lossy()),
            }
        };
        let in_arg = match spelling {
            "abs" => input_abs.to_string_lossy().to_string(),
            "rel" => rel(&input_abs),
            "dotrel" => format!("./{}", rel(&input_abs)),
            _ => input_name.to_string(),
        };
        let mut cmd = std::process::Command::new(&bin);
        cmd.current_dir(&cwd).arg("-i").arg(&in_arg);
        if outsel != "default" {
            cmd.arg("-o").arg(out_abs.to_string_lossy().to_string());
        }
        let output = cmd.output();
        let exit = match &output {
            Ok(o) => match o.status.code() {
                Some(0) => "ok".to_string(),
                Some(_) => "error".to_string(),
                None => "signal".to_string(),
            },
            Err(e) => format!("spawn:{e}"),
        };
        let outf = match std::fs::read(&out_abs) {
            Err(_) => "absent".to_string(),
            Ok(b) if pre != "absent" && b == old => "old".to_string(),
            Ok(b) if b.is_empty() => "empty".to_string(),
            Ok(b) if lib == "ok" && b == lib_bytes => "new".to_string(),
            Ok(_) => "other".to_string(),
        };
        let mut after = BTreeSet::new();
        list_files(&root, &mut after);
        let stray = after.iter().any(|p| !before.contains(p) && *p != out_abs);
        let effective_fail = if fail == "out_dir_missing" && outsel != "explicit_other" { "none" } else { fail };
        events.push(
            json!({"ev":"cli_run","cwd":cwd_kind,"exit":exit,"outf":outf,"stray":stray,"lib":lib,"arg":in_arg,
                   "effective_fail":effective_fail, "effective_pre": if has_parent { pre } else { "absent" },
                   "stderr": output.as_ref().map_or(String::new(), |o| String::from_utf8_lossy(&o.stderr).chars().take(200).collect::<String>())})
            .to_string(),
        );
        let _ = std::fs::remove_dir_all(&root);
    }
    events
}
