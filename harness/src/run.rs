//! In-process driver: concretise a case, call the real library, record the trace.
use crate::{absout, concretise};
use serde_json::{json, Value};
use std::io::Write;
use std::panic::{catch_unwind, AssertUnwindSafe};
use zeep_lib::reader::{Files, FilesToRead, WriteXml, XmlReader};

pub fn fnv(data: &[u8]) -> String {
    let mut h: u64 = 0xcbf2_9ce4_8422_2325;
    for b in data {
        h ^= u64::from(*b);
        h = h.wrapping_mul(0x0000_0100_0000_01b3);
    }
    format!("{h:016x}")
}

fn err_variant(e: &dyn std::fmt::Debug) -> String {
    let s = format!("{e:?}");
    s.split(|c: char| !(c.is_alphanumeric() || c == '_')).next().unwrap_or("").to_string()
}

fn panic_msg(p: &(dyn std::any::Any + Send)) -> String {
    if let Some(s) = p.downcast_ref::<&str>() {
        (*s).to_string()
    } else if let Some(s) = p.downcast_ref::<String>() {
        s.clone()
    } else {
        "panic".to_string()
    }
}

/// Counting writer: records the number of write calls and collects the bytes.
pub struct CountingSink {
    pub buf: Vec<u8>,
    pub writes: usize,
}

impl Write for CountingSink {
    fn write(&mut self, b: &[u8]) -> std::io::Result<usize> {
        self.writes += 1;
        self.buf.extend_from_slice(b);
        Ok(b.len())
    }
    fn flush(&mut self) -> std::io::Result<()> {
        Ok(())
    }
}

pub fn build_files(files: &[(String, String)], order: Option<&[usize]>, start: &str) -> FilesToRead {
    let idx: Vec<usize> = order.map_or_else(|| (0..files.len()).collect(), <[usize]>::to_vec);
    let mut it = idx.iter();
    let first = *it.next().expect("at least one file");
    let mut fs = Files::new(&files[first].0, &files[first].1);
    for i in it {
        fs.add(&files[*i].0, &files[*i].1);
    }
    FilesToRead::new(start, fs)
}

pub struct GenResult {
    pub events: Vec<String>,
    pub text: Option<Vec<u8>>,
    pub read_outcome: String,
    pub write_outcome: String,
}

/// one read_xml + write_xml on an existing FilesToRead; hook events drained in between
pub fn generate(ftr: &FilesToRead, call_no: usize, want_abs: bool) -> GenResult {
    let mut events = vec![];
    events.push(json!({"ev":"call","api":"read_xml","n":call_no}).to_string());
    zeep_lib::verif::enable(true);
    let _ = zeep_lib::verif::take_events();
    let r = catch_unwind(AssertUnwindSafe(|| XmlReader::read_xml(ftr)));
    events.extend(zeep_lib::verif::take_events());
    let doc = match r {
        Ok(Ok(d)) => {
            events.push(json!({"ev":"ret","api":"read_xml","n":call_no,"outcome":"doc"}).to_string());
            Some(d)
        }
        Ok(Err(e)) => {
            events.push(json!({"ev":"ret","api":"read_xml","n":call_no,"outcome":"err","err":err_variant(&e),"msg":e.to_string()}).to_string());
            None
        }
        Err(p) => {
            events.push(json!({"ev":"ret","api":"read_xml","n":call_no,"outcome":"panic","msg":panic_msg(&*p)}).to_string());
            None
        }
    };
    let read_outcome = if doc.is_some() { "doc" } else { "fail" }.to_string();
    let mut text = None;
    let mut write_outcome = "skipped".to_string();
    if let Some(d) = doc {
        let mut sink = CountingSink { buf: vec![], writes: 0 };
        let w = catch_unwind(AssertUnwindSafe(|| d.write_xml(&mut sink)));
        let emit_lines = zeep_lib::verif::take_events();
        let emits: Vec<Value> = emit_lines.iter().filter_map(|e| serde_json::from_str(e).ok()).collect();
        if want_abs {
            events.extend(emit_lines.iter().cloned());
        }
        let (outcome, msg) = match w {
            Ok(Ok(())) => ("ok".to_string(), String::new()),
            Ok(Err(e)) => ("err".to_string(), e.to_string()),
            Err(p) => ("panic".to_string(), panic_msg(&*p)),
        };
        write_outcome.clone_from(&outcome);
        let mut ev = json!({"ev":"written","n":call_no,"outcome":outcome,"msg":msg,"writes":sink.writes,"bytes":sink.buf.len(),
                             "digest":fnv(&sink.buf), "emits": emits.len()});
        if want_abs {
            let t = String::from_utf8_lossy(&sink.buf).to_string();
            ev["out"] = absout::abstract_output(&t);
        }
        events.push(ev.to_string());
        text = Some(sink.buf);
    }
    zeep_lib::verif::enable(false);
    GenResult { events, text, read_outcome, write_outcome }
}

fn order_of(case: &Value, n: usize) -> Option<Vec<usize>> {
    case.get("order").and_then(Value::as_array).map(|a| a.iter().filter_map(|x| x.as_u64()).map(|x| (x as usize) - 1).filter(|x| *x < n).collect())
}

fn sibling_text(kind: &str) -> String {
    match kind {
        "malformed" => "<xs:schema xmlns:xs=\"http://www.w3.org/2001/XMLSchema\"><xs:complexType name=\"Broken\">".to_string(),
        "nonschema" => "<?xml version=\"1.0\"?>\n<catalog><entry name=\"NotASchema\"/></catalog>\n".to_string(),
        "empty" => String::new(),
        "text" => "this is not xml at all\n".to_string(),
        _ => "<?xml version=\"1.0\"?>\n<xs:schema xmlns:xs=\"http://www.w3.org/2001/XMLSchema\" xmlns:u=\"urn:unrelated:sibling\" targetNamespace=\"urn:unrelated:sibling\" elementFormDefault=\"qualified\">\n  <xs:complexType name=\"UnrelatedSiblingType\"><xs:sequence><xs:element name=\"x\" type=\"xs:string\"/></xs:sequence></xs:complexType>\n</xs:schema>\n".to_string(),
    }
}

pub fn run_case(voc: &concretise::Vocab, case: &Value, dump: Option<&str>) -> Vec<String> {
    let id = case["id"].clone();
    let mut events = vec![json!({"ev":"case","id":id,"case":case}).to_string()];
    let files = concretise::render_files(voc, case);
    let start = case["start"].as_str().unwrap_or("").to_string();
    let drv = case["drv"].as_str().unwrap_or("gen");
    if let Some(d) = dump {
        let dir = format!("{d}/{}", id);
        let _ = std::fs::create_dir_all(&dir);
        for (n, t) in &files {
            let _ = std::fs::write(format!("{dir}/{n}"), t);
        }
    }
    match drv {
        "gen" if case["path"].is_string() => {
            match zeep_lib::utils::read_input_file_and_xsd_files_at_path(std::path::Path::new(case["path"].as_str().unwrap())) {
                Ok(ftr) => {
                    let g = generate(&ftr, 1, true);
                    events.extend(g.events);
                }
                Err(e) => events.push(json!({"ev":"harness_error","msg":format!("cannot load: {e}")}).to_string()),
            }
        }
        "gen" => {
            let ftr = build_files(&files, order_of(case, files.len()).as_deref(), &start);
            let g = generate(&ftr, 1, true);
            events.extend(g.events);
            if let (Some(d), Some(t)) = (dump, &g.text) {
                let _ = std::fs::write(format!("{d}/{}/out.rs", id), t);
            }
        }
        "c11" => {
            // calls 1..ncalls on one object (history), then fresh objects with unreachable siblings added
            let ftr = build_files(&files, None, &start);
            let g = generate(&ftr, 1, true);
            events.extend(g.events);
            let ncalls = case["ncalls"].as_u64().unwrap_or(1) as usize;
            for n in 2..=ncalls {
                let gn = generate(&ftr, n, false);
                events.extend(gn.events);
            }
            let base = g.text.as_ref().map(|t| fnv(t));
            let sibs: Vec<String> = case["siblings"].as_array().map_or(vec![], |a| a.iter().filter_map(|x| x.as_str().map(ToString::to_string)).collect());
            // the same through the directory scan of utils.rs: the files of the case on disk, plus siblings that are
            // unreachable from the start file (valid, malformed, not UTF-8, a directory called *.xsd, an unrelated .txt)
            if case["dirscan"].as_bool().unwrap_or(false) && g.read_outcome == "doc" {
                let scratch = std::env::var("ZV_SCRATCH").unwrap_or_else(|_| std::env::temp_dir().to_string_lossy().to_string());
                for kind in ["none", "valid", "malformed", "nonutf8", "dir_named_xsd", "txt"] {
                    let dir = std::path::PathBuf::from(format!("{scratch}/c11/{}_{}_{kind}", std::process::id(), id));
                    let _ = std::fs::remove_dir_all(&dir);
                    std::fs::create_dir_all(&dir).unwrap();
                    for (n, t) in &files {
                        std::fs::write(dir.join(n), t).unwrap();
                    }
                    match kind {
                        "valid" => std::fs::write(dir.join("zz_sibling.xsd"), sibling_text("valid")).unwrap(),
                        "malformed" => std::fs::write(dir.join("zz_sibling.xsd"), sibling_text("malformed")).unwrap(),
                        "nonutf8" => std::fs::write(dir.join("zz_sibling.xsd"), [0xffu8, 0xfe, 0x00, 0xd8]).unwrap(),
                        "dir_named_xsd" => std::fs::create_dir_all(dir.join("zz_dir.xsd")).unwrap(),
                        "txt" => std::fs::write(dir.join("notes.txt"), "not a schema").unwrap(),
                        _ => {}
                    }
                    let loaded = catch_unwind(AssertUnwindSafe(|| zeep_lib::utils::read_input_file_and_xsd_files_at_path(&dir.join(&start))));
                    let (read, write, same) = match loaded {
                        Ok(Ok(ftr2)) => {
                            let g2 = generate(&ftr2, 1, false);
                            let d2 = g2.text.as_ref().map(|t| fnv(t));
                            (g2.read_outcome, g2.write_outcome, d2 == base)
                        }
                        Ok(Err(e)) => (format!("load_err:{}", err_variant(&e)), "skipped".to_string(), false),
                        Err(_) => ("load_panic".to_string(), "skipped".to_string(), false),
                    };
                    events.push(json!({"ev":"sibling","kind":format!("dir:{kind}"),"read":read,"write":write,"same":same,"base_read":g.read_outcome}).to_string());
                    let _ = std::fs::remove_dir_all(&dir);
                }
            }
            for (k, kind) in sibs.iter().enumerate() {
                let mut fs2 = files.clone();
                fs2.push((format!("zz_sibling_{k}.xsd"), sibling_text(kind)));
                let ftr2 = build_files(&fs2, None, &start);
                zeep_lib::verif::enable(false);
                let g2 = generate(&ftr2, k + 2, false);
                let d2 = g2.text.as_ref().map(|t| fnv(t));
                events.push(json!({"ev":"sibling","kind":kind,"read":g2.read_outcome,"write":g2.write_outcome,
                                   "same": d2 == base, "base_read": g.read_outcome}).to_string());
            }
        }
        "multiref" => {
            let r = catch_unwind(AssertUnwindSafe(|| crate::multiref::run(case)));
            match r {
                Ok(ev) => events.extend(ev),
                Err(p) => events.push(json!({"ev":"obs","channel":"panic","bare":"no panic","wrapped":panic_msg(&*p)}).to_string()),
            }
        }
        "lex" => {
            // generate, then classify where each probe's marker landed in the emitted text
            let ftr = build_files(&files, None, &start);
            let g = generate(&ftr, 1, false);
            for e in &g.events {
                if e.contains("\"ev\":\"ret\"") {
                    events.push(e.clone());
                }
            }
            if let Some(t) = &g.text {
                let text = String::from_utf8_lossy(t).to_string();
                let parses = syn::parse_file(&text).is_ok();
                let mut probes = vec![];
                for p in case["probes"].as_array().cloned().unwrap_or_default() {
                    let original = voc.text(p["text"].as_str().unwrap_or(""));
                    let marker = p["marker"].as_str().unwrap_or("ZVMK");
                    let occ = crate::lexer::classify(&text, marker, &original);
                    probes.push(json!({"site": p["site"], "cls": p["cls"], "src": p["src"], "occ": occ}));
                }
                events.push(json!({"ev":"lexed","write":g.write_outcome,"parses":parses,"probes":probes}).to_string());
                if let Some(d) = dump {
                    let _ = std::fs::write(format!("{d}/{}/out.rs", id), t);
                }
            }
        }
        "cli" => {
            events.extend(crate::cli::run(case));
        }
        "robust" => {
            // base files (abstract or from a path), then the mutations the case lists, then one generation
            let (mut fs, st) = load_case_files(voc, case);
            let mut applied = true;
            for m in case["muts"].as_array().cloned().unwrap_or_default() {
                let fi = (m["file"].as_u64().unwrap_or(1) as usize).saturating_sub(1);
                if fi >= fs.len() {
                    applied = false;
                    continue;
                }
                match crate::mutate::apply(&fs[fi].1, &m) {
                    Some(t) => fs[fi].1 = t,
                    None => applied = false,
                }
            }
            let bytes: usize = fs.iter().map(|f| f.1.len()).sum();
            events.push(json!({"ev":"mutated","applied":applied,"bytes":bytes}).to_string());
            if let Some(d) = dump {
                let dir = format!("{d}/{}", id);
                let _ = std::fs::create_dir_all(&dir);
                for (n, t) in &fs {
                    let _ = std::fs::write(format!("{dir}/{n}"), t);
                }
            }
            let start_name = case["start_override"].as_str().map_or(st, ToString::to_string);
            let t0 = std::time::Instant::now();
            let ftr = build_files(&fs, None, &start_name);
            let g = generate(&ftr, 1, false);
            // only the outcome events matter here
            for e in g.events {
                if e.contains("\"ev\":\"ret\"") || e.contains("\"ev\":\"written\"") {
                    events.push(e);
                }
            }
            events.push(json!({"ev":"elapsed","ms":t0.elapsed().as_millis() as u64}).to_string());
        }
        "c12" | "c12path" => {
            let (fs, st) = load_case_files(voc, case);
            events.extend(c12(voc, case, &fs, &st));
        }
        "sink" => {
            events.extend(crate::sink::run_case(&files, &start, case));
        }
        "facets" => {
            let r = catch_unwind(AssertUnwindSafe(|| crate::facets::run(case)));
            match r {
                Ok(ev) => events.extend(ev),
                Err(p) => events.push(json!({"ev":"harness_error","msg":panic_msg(&*p)}).to_string()),
            }
        }
        other => {
            events.push(json!({"ev":"harness_error","msg":format!("unknown driver {other}")}).to_string());
        }
    }
    events.push(json!({"ev":"done","id":id}).to_string());
    events
}

/// the file set of a case: rendered from the abstract schema set, or (corpus cases) read from a directory
pub fn load_case_files(voc: &concretise::Vocab, case: &Value) -> (Vec<(String, String)>, String) {
    if let Some(p) = case["path"].as_str() {
        let path = std::path::Path::new(p);
        let name = path.file_name().unwrap().to_string_lossy().to_string();
        let mut files = vec![(name.clone(), std::fs::read_to_string(path).unwrap_or_default())];
        if let Some(dir) = path.parent() {
            let mut sibs: Vec<_> = std::fs::read_dir(dir).map(|d| d.filter_map(Result::ok).map(|e| e.path()).collect()).unwrap_or_default();
            sibs.sort();
            for s in sibs {
                if s.is_file() && s.extension().is_some_and(|e| e == "xsd") && s != path {
                    if let Ok(t) = std::fs::read_to_string(&s) {
                        files.push((s.file_name().unwrap().to_string_lossy().to_string(), t));
                    }
                }
            }
        }
        (files, name)
    } else {
        (concretise::render_files(voc, case), case["start"].as_str().unwrap_or("").to_string())
    }
}

fn digest_of(files: &[(String, String)], order: Option<&[usize]>, start: &str) -> (String, String) {
    let ftr = build_files(files, order, start);
    let g = generate(&ftr, 1, false);
    let outcome = if g.read_outcome != "doc" { format!("read:{}", g.read_outcome) } else { g.write_outcome.clone() };
    (outcome, g.text.as_ref().map_or("none".to_string(), |t| fnv(t)))
}

fn permutations(n: usize) -> Vec<Vec<usize>> {
    if n == 0 {
        return vec![vec![]];
    }
    let mut out = vec![];
    for p in permutations(n - 1) {
        for i in 0..=p.len() {
            let mut q = p.clone();
            q.insert(i, n - 1);
            out.push(q);
        }
    }
    out
}

/// one generation in this process, printing "outcome digest" (used for the fresh-process runs of C12)
pub fn digest_main(case_file: &str) {
    let text = std::fs::read_to_string(case_file).expect("case file");
    let mut lines = text.lines();
    let vocab: Value = serde_json::from_str(lines.next().unwrap()).unwrap();
    let voc = concretise::Vocab { v: vocab["vocab"].clone() };
    let case: Value = serde_json::from_str(lines.next().unwrap()).unwrap();
    let (files, start) = load_case_files(&voc, &case);
    let (o, d) = digest_of(&files, None, &start);
    println!("{o} {d}");
}

fn c12(voc: &concretise::Vocab, case: &Value, files: &[(String, String)], start: &str) -> Vec<String> {
    let mut ev = vec![];
    let mut push = |how: String, o: String, d: String| ev.push(json!({"ev":"gen","how":how,"outcome":o,"digest":d}).to_string());
    // registration orders
    let perms = if files.len() <= 4 { permutations(files.len()) } else { vec![(0..files.len()).collect()] };
    for p in &perms {
        let (o, d) = digest_of(files, Some(p), start);
        push(format!("order:{}", p.iter().map(|i| (i + 1).to_string()).collect::<Vec<_>>().join(",")), o, d);
    }
    // repeated calls on one object
    let ftr = build_files(files, None, start);
    for n in 1..=3 {
        let g = generate(&ftr, n, false);
        let outcome = if g.read_outcome != "doc" { format!("read:{}", g.read_outcome) } else { g.write_outcome.clone() };
        push(format!("call:{n}"), outcome, g.text.as_ref().map_or("none".to_string(), |t| fnv(t)));
    }
    // threads
    let results: Vec<(String, String)> = std::thread::scope(|s| {
        let hs: Vec<_> = (0..8).map(|_| s.spawn(|| digest_of(files, None, start))).collect();
        hs.into_iter().map(|h| h.join().unwrap_or(("panic".to_string(), "none".to_string()))).collect()
    });
    for (k, (o, d)) in results.into_iter().enumerate() {
        push(format!("thread:{k}"), o, d);
    }
    // fresh processes (fresh hash seeds)
    let nproc = case["nproc"].as_u64().unwrap_or(6);
    let dir = std::env::var("ZV_SCRATCH").unwrap_or_else(|_| std::env::temp_dir().to_string_lossy().to_string());
    let _ = std::fs::create_dir_all(&dir);
    let cf = format!("{dir}/c12_case_{}_{}.ndjson", std::process::id(), case["id"]);
    let _ = std::fs::write(&cf, format!("{}\n{}\n", json!({"vocab": voc.v}), case));
    for k in 0..nproc {
        let out = std::process::Command::new(std::env::current_exe().unwrap()).args(["digest", &cf]).output();
        match out {
            Ok(o) if o.status.success() => {
                let t = String::from_utf8_lossy(&o.stdout).to_string();
                let mut it = t.split_whitespace();
                push(format!("process:{k}"), it.next().unwrap_or("?").to_string(), it.next().unwrap_or("?").to_string());
            }
            Ok(o) => push(format!("process:{k}"), format!("exit:{:?}", o.status.code()), "none".to_string()),
            Err(e) => push(format!("process:{k}"), format!("spawn:{e}"), "none".to_string()),
        }
    }
    let _ = std::fs::remove_file(&cf);
    ev
}
